package main

// ClientGen: what every clientFile method (and Client.Attach) puts on the wire.
// For each method: the closed-flag guard, the T-message composite literal(s) it
// hands to sendRecv (struct field <- parameter / receiver fid / new fid /
// constant / conversion), the version predicate selecting between them, the
// R-message type, the values returned after each exchange, the fidPool Get/Put
// sites, and calls to other methods.  Methods that are compositions of other
// methods (GetXattr, ListXattrs, xattrWalkRead, ReadAt, WriteAt, the
// pre-Twalkgetattr branch of WalkGetAttr, the tail of readAt) are emitted as
// normalised statement text so that any edit shows up as a table difference.
// Also: whether sendRecv withdraws its pending entry when send fails.
// Anything else is REFUSED.

import (
	"bytes"
	"fmt"
	"go/ast"
	"go/parser"
	"go/printer"
	"go/token"
	"os"
	"path/filepath"
	"sort"
	"strings"
)

func init() { register(Generator{Name: "ClientGen", Run: runClientGen}) }

type cgSend struct {
	cond   string // "" | "when:pred" | "unless:pred"
	tname  string
	fields [][2]string // field, rendered gsrc
	rname  string
	rinit  string // field initialised in the reply literal ("Data<-p") or ""
	rets   []string
	putErr string // "" | "always" (fidPool.Put(id)) | "refused" (releaseFID(id, err))
}

type cgMethod struct {
	name    string
	params  []string
	guard   string
	local   string
	sends   []cgSend
	fidGet  bool
	fidPut  bool // Put(c.fid) after success
	text    []string
	asserts map[string]string // local name -> File parameter it was asserted from
	clamped map[string]bool
	locals  map[string]*ast.CompositeLit
	over    map[string]ast.Expr // msg.GID = gid overrides in the current branch
	rtypes  map[string]string   // reply variable -> type
	rinits  map[string]string
}

// cgCur is the function being read: text is printed with its locals renamed by role (cgRoles), so that
// renaming a local variable or the receiver changes neither the table nor what the matchers see.
var cgCur map[string]string

func cgExprString(r *Repo, e ast.Node) string {
	var b bytes.Buffer
	if cgCur == nil {
		printer.Fprint(&b, r.Fset, e)
	} else {
		b.WriteString(cgAlphaWith(r.Fset, e, cgCur))
	}
	return strings.Join(strings.Fields(b.String()), " ")
}

// cgAlphaWith is AlphaPrint (alpha.go) with a given renaming.
func cgAlphaWith(fset *token.FileSet, node ast.Node, names map[string]string) string {
	skip := map[*ast.Ident]bool{}
	ast.Inspect(node, func(n ast.Node) bool {
		switch x := n.(type) {
		case *ast.SelectorExpr:
			skip[x.Sel] = true
		case *ast.KeyValueExpr:
			if id, ok := x.Key.(*ast.Ident); ok {
				skip[id] = true
			}
		case *ast.LabeledStmt:
			skip[x.Label] = true
		case *ast.BranchStmt:
			if x.Label != nil {
				skip[x.Label] = true
			}
		}
		return true
	})
	type sv struct {
		id   *ast.Ident
		name string
	}
	var saved []sv
	ast.Inspect(node, func(n ast.Node) bool {
		if id, ok := n.(*ast.Ident); ok && !skip[id] {
			if nn, ok := names[id.Name]; ok {
				saved = append(saved, sv{id, id.Name})
				id.Name = nn
			}
		}
		return true
	})
	var buf bytes.Buffer
	printer.Fprint(&buf, fset, node)
	for _, s := range saved {
		s.id.Name = s.name
	}
	return buf.String()
}

// cgRoles: the renaming of fd's locals.  Parameters keep their names (they are the keys of the model's
// argument environment); the receiver is "c"; a local gets the name of its role when its declaration
// shows it (the fid taken from the pool, a reply/request literal, an error that is tested, ...), else its
// positional name (alpha.go).
func cgRoles(fd *ast.FuncDecl) map[string]string {
	names := LocalNames(fd)
	used := map[string]bool{}
	set := func(e ast.Expr, role string) {
		if id, ok := e.(*ast.Ident); ok && id.Name != "_" {
			if _, local := names[id.Name]; local {
				names[id.Name] = role
				used[role] = true
			}
		}
	}
	if fd.Recv != nil {
		for _, f := range fd.Recv.List {
			for _, n := range f.Names {
				names[n.Name] = "c"
			}
		}
	}
	params := map[string]bool{}
	for _, f := range fd.Type.Params.List {
		for _, n := range f.Names {
			names[n.Name] = n.Name
			params[n.Name] = true
		}
	}
	selEnds := func(e ast.Expr, a, b string) bool { // ....a.b(...)
		call, ok := e.(*ast.CallExpr)
		if !ok {
			return false
		}
		s, ok := call.Fun.(*ast.SelectorExpr)
		if !ok || s.Sel.Name != b {
			return false
		}
		if a == "" {
			return true
		}
		switch x := s.X.(type) {
		case *ast.SelectorExpr:
			return x.Sel.Name == a
		case *ast.Ident:
			return x.Name == a
		}
		return false
	}
	typeName := func(e ast.Expr) string {
		if st, ok := e.(*ast.StarExpr); ok {
			e = st.X
		}
		if id, ok := e.(*ast.Ident); ok {
			return id.Name
		}
		return ""
	}
	ast.Inspect(fd.Body, func(n ast.Node) bool {
		switch x := n.(type) {
		case *ast.AssignStmt:
			if x.Tok != token.DEFINE || len(x.Rhs) != 1 {
				return true
			}
			rhs := x.Rhs[0]
			switch {
			case selEnds(rhs, "fidPool", "Get") && len(x.Lhs) == 2:
				set(x.Lhs[0], "id")
				set(x.Lhs[1], "ok")
			case selEnds(rhs, "tagPool", "Get") && len(x.Lhs) == 2:
				set(x.Lhs[0], "t")
				set(x.Lhs[1], "ok")
			}
			if ta, ok := rhs.(*ast.TypeAssertExpr); ok {
				if selEnds(ta.X, "responsePool", "Get") {
					set(x.Lhs[0], "resp")
				} else if len(x.Lhs) == 2 {
					set(x.Lhs[1], "ok")
				}
			}
			if tn, lit := cgLitType(rhs); lit != nil && len(x.Lhs) == 1 {
				if strings.HasPrefix(tn, "r") {
					set(x.Lhs[0], tn)
				} else if strings.HasPrefix(tn, "t") {
					set(x.Lhs[0], "msg")
				}
			}
			if call, ok := rhs.(*ast.CallExpr); ok {
				if f, ok := call.Fun.(*ast.Ident); ok {
					switch {
					case f.Name == "send" && len(x.Lhs) == 1:
						set(x.Lhs[0], "err")
					case f.Name == "recv" && len(x.Lhs) == 3:
						set(x.Lhs[0], "t")
						set(x.Lhs[1], "r")
						set(x.Lhs[2], "err")
					}
				}
				if selEnds(rhs, "", "sendRecv") && len(x.Lhs) == 1 {
					set(x.Lhs[0], "err")
				}
				if selEnds(rhs, "errors", "As") && len(x.Lhs) == 1 {
					set(x.Lhs[0], "fatal")
				}
			}
			if id, ok := rhs.(*ast.Ident); ok && id.Name == "true" && len(x.Lhs) == 1 {
				set(x.Lhs[0], "recycle")
			}
			if ix, ok := rhs.(*ast.IndexExpr); ok && len(x.Lhs) == 1 {
				if s, ok := ix.X.(*ast.SelectorExpr); ok && s.Sel.Name == "pending" {
					set(x.Lhs[0], "resp")
				}
			}
			if se, ok := rhs.(*ast.SelectorExpr); ok && se.Sel.Name == "broken" && len(x.Lhs) == 1 {
				set(x.Lhs[0], "err")
			}
			if be, ok := rhs.(*ast.BinaryExpr); ok && len(x.Lhs) == 1 {
				if s, ok := be.X.(*ast.SelectorExpr); ok && s.Sel.Name == "messageSize" {
					set(x.Lhs[0], "max")
				}
			}
		case *ast.ValueSpec:
			if len(x.Names) == 1 {
				switch typeName(x.Type) {
				case "response":
					set(x.Names[0], "found")
				case "ConnError":
					set(x.Names[0], "connErr")
				}
			}
		case *ast.FuncLit:
			for _, f := range x.Type.Params.List {
				for _, nm := range f.Names {
					switch typeName(f.Type) {
					case "tag":
						set(nm, "t")
					case "msgType":
						set(nm, "mt")
					}
				}
			}
		case *ast.RangeStmt:
			if s, ok := x.X.(*ast.SelectorExpr); ok && s.Sel.Name == "pending" && x.Value != nil {
				set(x.Value, "resp")
			}
		case *ast.IfStmt:
			// an error that is tested: `x != nil`, `x != nil && ...`
			c := x.Cond
			if be, ok := c.(*ast.BinaryExpr); ok && be.Op == token.LAND {
				c = be.X
			}
			if be, ok := c.(*ast.BinaryExpr); ok && be.Op == token.NEQ {
				if y, ok := be.Y.(*ast.Ident); ok && y.Name == "nil" {
					if id, ok := be.X.(*ast.Ident); ok && !params[id.Name] {
						set(be.X, "err")
					}
				}
			}
		}
		return true
	})
	return names
}

func cgQ(s string) string { return CoqString(s) }

// cgRole is the role name of a local of the function being read (or the name itself).
func cgRole(name string) string {
	if cgCur != nil {
		if n, ok := cgCur[name]; ok {
			return n
		}
	}
	return name
}

func (m *cgMethod) isParam(n string) bool {
	for _, p := range m.params {
		if p == n {
			return true
		}
	}
	return false
}

var cgConsts = map[string]bool{"NoGID": true, "NoUID": true, "noFID": true, "AttrMaskAll": true}

// src renders the source of a struct field value.
func (m *cgMethod) src(r *Repo, e ast.Expr) (string, error) {
	switch v := e.(type) {
	case *ast.Ident:
		if m.isParam(v.Name) {
			if m.clamped[v.Name] {
				return "GClamped " + cgQ(v.Name), nil
			}
			return "GParam " + cgQ(v.Name), nil
		}
		if cgConsts[v.Name] {
			return "GConst " + cgQ(v.Name), nil
		}
	case *ast.SelectorExpr:
		if x, ok := v.X.(*ast.Ident); ok && v.Sel.Name == "fid" {
			if cgRole(x.Name) == "c" {
				return "GRecvFid", nil
			}
			if p, ok := m.asserts[x.Name]; ok {
				return "GParamFid " + cgQ(p), nil
			}
		}
	case *ast.CallExpr:
		if f, ok := v.Fun.(*ast.Ident); ok && len(v.Args) == 1 {
			if f.Name == "fid" {
				if id, ok := v.Args[0].(*ast.Ident); ok && cgRole(id.Name) == "id" && m.fidGet {
					return "GNewFid", nil
				}
			}
			if inner, ok := v.Args[0].(*ast.CallExpr); ok {
				if lf, ok := inner.Fun.(*ast.Ident); ok && lf.Name == "len" && len(inner.Args) == 1 {
					if id, ok := inner.Args[0].(*ast.Ident); ok && m.isParam(id.Name) {
						return fmt.Sprintf("GLen %s %s", cgQ(f.Name), cgQ(id.Name)), nil
					}
				}
			}
			if f.Name == "uint64" || f.Name == "int32" || f.Name == "uint32" {
				s, err := m.src(r, v.Args[0])
				if err != nil {
					return "", err
				}
				return fmt.Sprintf("GConv %s (%s)", cgQ(f.Name), s), nil
			}
		}
	}
	return "", r.Refuse(e.Pos(), "field value %s in %s", cgExprString(r, e), m.name)
}

// fieldsOf flattens a composite literal (nested literals and the local `msg`).
func (m *cgMethod) fieldsOf(r *Repo, lit *ast.CompositeLit, prefix string, over map[string]ast.Expr) ([][2]string, error) {
	var out [][2]string
	for _, el := range lit.Elts {
		kv, ok := el.(*ast.KeyValueExpr)
		if !ok {
			return nil, r.Refuse(el.Pos(), "positional composite literal in %s", m.name)
		}
		key := kv.Key.(*ast.Ident).Name
		val := kv.Value
		if inner, ok := val.(*ast.CompositeLit); ok {
			fs, err := m.fieldsOf(r, inner, prefix+key+".", nil)
			if err != nil {
				return nil, err
			}
			out = append(out, fs...)
			continue
		}
		if id, ok := val.(*ast.Ident); ok {
			if loc, ok := m.locals[cgRole(id.Name)]; ok {
				fs, err := m.fieldsOf(r, loc, prefix, m.over)
				if err != nil {
					return nil, err
				}
				out = append(out, fs...)
				continue
			}
		}
		if o, ok := over[key]; ok {
			val = o
		}
		s, err := m.src(r, val)
		if err != nil {
			return nil, err
		}
		out = append(out, [2]string{prefix + key, s})
	}
	return out, nil
}

func cgLitType(e ast.Expr) (string, *ast.CompositeLit) {
	if u, ok := e.(*ast.UnaryExpr); ok && u.Op == token.AND {
		e = u.X
	}
	if lit, ok := e.(*ast.CompositeLit); ok {
		if id, ok := lit.Type.(*ast.Ident); ok {
			return id.Name, lit
		}
	}
	return "", nil
}

// sendCall recognises c.client.sendRecv(T, R) / c.sendRecv(T, R).
func (m *cgMethod) sendCall(r *Repo, e ast.Expr, cond string) (*cgSend, error) {
	call, ok := e.(*ast.CallExpr)
	if !ok {
		return nil, nil
	}
	sel, ok := call.Fun.(*ast.SelectorExpr)
	if !ok || sel.Sel.Name != "sendRecv" || len(call.Args) != 2 {
		return nil, nil
	}
	s := &cgSend{cond: cond}
	// T side
	targ := call.Args[0]
	if u, ok := targ.(*ast.UnaryExpr); ok && u.Op == token.AND {
		if id, ok := u.X.(*ast.Ident); ok {
			loc, ok := m.locals[cgRole(id.Name)]
			if !ok {
				return nil, r.Refuse(targ.Pos(), "sendRecv of unknown variable %s in %s", id.Name, m.name)
			}
			s.tname = loc.Type.(*ast.Ident).Name
			fs, err := m.fieldsOf(r, loc, "", m.over)
			if err != nil {
				return nil, err
			}
			s.fields = fs
		}
	}
	if s.tname == "" {
		tn, lit := cgLitType(targ)
		if lit == nil {
			return nil, r.Refuse(targ.Pos(), "request argument %s in %s", cgExprString(r, targ), m.name)
		}
		s.tname = tn
		fs, err := m.fieldsOf(r, lit, "", nil)
		if err != nil {
			return nil, err
		}
		s.fields = fs
	}
	// R side
	rarg := call.Args[1]
	if rn, lit := cgLitType(rarg); lit != nil {
		if len(lit.Elts) != 0 {
			return nil, r.Refuse(rarg.Pos(), "initialised reply literal in %s", m.name)
		}
		s.rname = rn
	} else if u, ok := rarg.(*ast.UnaryExpr); ok && u.Op == token.AND {
		if id, ok := u.X.(*ast.Ident); ok {
			s.rname = m.rtypes[cgRole(id.Name)]
			s.rinit = m.rinits[cgRole(id.Name)]
		}
	}
	if s.rname == "" {
		return nil, r.Refuse(rarg.Pos(), "reply argument %s in %s", cgExprString(r, rarg), m.name)
	}
	return s, nil
}

func cgIsErrNotNil(e ast.Expr) bool {
	b, ok := e.(*ast.BinaryExpr)
	if !ok || b.Op != token.NEQ {
		return false
	}
	x, ok1 := b.X.(*ast.Ident)
	y, ok2 := b.Y.(*ast.Ident)
	return ok1 && ok2 && cgRole(x.Name) == "err" && y.Name == "nil"
}

func (m *cgMethod) rets(r *Repo, ret *ast.ReturnStmt) []string {
	var out []string
	for _, e := range ret.Results {
		out = append(out, cgExprString(r, e))
	}
	return out
}

// errBlock checks an `err != nil` body: optional fidPool.Put(id) / releaseFID(id, err), then return.
func (m *cgMethod) errBlock(r *Repo, b *ast.BlockStmt) (string, error) {
	put := ""
	for i, st := range b.List {
		if es, ok := st.(*ast.ExprStmt); ok {
			switch cgExprString(r, es.X) {
			case "c.client.fidPool.Put(id)", "c.fidPool.Put(id)":
				put = "always"
				continue
			case "c.client.releaseFID(id, err)", "c.releaseFID(id, err)":
				put = "refused"
				continue
			}
		}
		if ret, ok := st.(*ast.ReturnStmt); ok && i == len(b.List)-1 {
			last := cgExprString(r, ret.Results[len(ret.Results)-1])
			if last != "err" {
				return "", r.Refuse(ret.Pos(), "error path of %s does not return err", m.name)
			}
			continue
		}
		return "", r.Refuse(st.Pos(), "statement %s on the error path of %s", cgExprString(r, st), m.name)
	}
	return put, nil
}

func (m *cgMethod) block(r *Repo, list []ast.Stmt, cond string) error {
	for i := 0; i < len(list); i++ {
		st := list[i]
		txt := cgExprString(r, st)
		switch s := st.(type) {
		case *ast.IfStmt:
			c := cgExprString(r, s.Cond)
			switch {
			case c == "atomic.LoadUint32(&c.closed) != 0" && s.Init == nil:
				if !strings.HasSuffix(cgExprString(r, s.Body), "linux.EBADF }") {
					return r.Refuse(s.Pos(), "closed guard of %s does not return EBADF", m.name)
				}
				m.guard = "load"
				continue
			case c == "!atomic.CompareAndSwapUint32(&c.closed, 0, 1)" && s.Init == nil:
				m.guard = "cas"
				continue
			case c == "!ok" && s.Init == nil:
				b := cgExprString(r, s.Body)
				if strings.HasSuffix(b, "ErrOutOfFIDs }") || strings.HasSuffix(b, "linux.EBADF }") {
					continue
				}
			case s.Init != nil && cgIsErrNotNil(s.Cond):
				as, ok := s.Init.(*ast.AssignStmt)
				if ok && len(as.Rhs) == 1 {
					snd, err := m.sendCall(r, as.Rhs[0], cond)
					if err != nil {
						return err
					}
					if snd != nil {
						put, err := m.errBlock(r, s.Body)
						if err != nil {
							return err
						}
						snd.putErr = put
						m.sends = append(m.sends, *snd)
						continue
					}
				}
			case strings.HasPrefix(c, "versionSupports") || strings.HasPrefix(c, "!versionSupports"):
				pred := strings.TrimPrefix(c, "!")
				if !strings.HasSuffix(pred, "(c.client.version)") || s.Else != nil {
					return r.Refuse(s.Pos(), "version test %s in %s", c, m.name)
				}
				pred = strings.TrimSuffix(pred, "(c.client.version)")
				if strings.HasPrefix(c, "!") {
					// composition of other methods: keep as text
					m.text = append(m.text, "unless "+pred+" "+cgExprString(r, s.Body))
					return m.block(r, list[i+1:], "when:"+pred)
				}
				saved := m.over
				m.over = map[string]ast.Expr{}
				if err := m.block(r, s.Body.List, "when:"+pred); err != nil {
					return err
				}
				m.over = saved
				// the rest of the enclosing block runs only when the predicate is false
				return m.block(r, list[i+1:], "unless:"+pred)
			case strings.HasPrefix(c, "max := c.client.messageSize - (headerLength + 4)") || (s.Init != nil && cgExprString(r, s.Init) == "max := c.client.messageSize - (headerLength + 4)" && c == "count > max"):
				if cgExprString(r, s.Body) != "{ count = max }" {
					return r.Refuse(s.Pos(), "clamp in %s", m.name)
				}
				m.clamped["count"] = true
				continue
			}
			return r.Refuse(s.Pos(), "if statement %s in %s", txt, m.name)
		case *ast.AssignStmt:
			if len(s.Lhs) == 2 && len(s.Rhs) == 1 && (txt == "id, ok := c.client.fidPool.Get()" || txt == "id, ok := c.fidPool.Get()") {
				m.fidGet = true
				continue
			}
			if len(s.Lhs) == 2 && len(s.Rhs) == 1 {
				if ta, ok := s.Rhs[0].(*ast.TypeAssertExpr); ok && cgExprString(r, ta.Type) == "*clientFile" {
					m.asserts[s.Lhs[0].(*ast.Ident).Name] = cgExprString(r, ta.X)
					continue
				}
			}
			if len(s.Lhs) == 1 && len(s.Rhs) == 1 {
				lhs := cgExprString(r, s.Lhs[0])
				if tn, lit := cgLitType(s.Rhs[0]); lit != nil && s.Tok == token.DEFINE {
					if strings.HasPrefix(tn, "r") {
						m.rtypes[lhs] = tn
						for _, el := range lit.Elts {
							kv, ok := el.(*ast.KeyValueExpr)
							if !ok {
								return r.Refuse(el.Pos(), "reply literal in %s", m.name)
							}
							m.rinits[lhs] = cgExprString(r, kv.Key) + "<-" + cgExprString(r, kv.Value)
						}
						continue
					}
					if strings.HasPrefix(tn, "t") {
						m.locals[lhs] = lit
						continue
					}
				}
				if strings.HasPrefix(lhs, "msg.") && s.Tok == token.ASSIGN {
					m.over[strings.TrimPrefix(lhs, "msg.")] = s.Rhs[0]
					continue
				}
				if lhs == "err" && s.Tok == token.DEFINE {
					snd, err := m.sendCall(r, s.Rhs[0], cond)
					if err != nil {
						return err
					}
					if snd != nil {
						m.sends = append(m.sends, *snd)
						continue
					}
				}
			}
			return r.Refuse(s.Pos(), "assignment %s in %s", txt, m.name)
		case *ast.ExprStmt:
			switch txt {
			case "runtime.SetFinalizer(c, nil)":
				continue
			case "c.client.fidPool.Put(uint64(c.fid))":
				m.fidPut = true
				continue
			}
			return r.Refuse(s.Pos(), "statement %s in %s", txt, m.name)
		case *ast.ReturnStmt:
			if len(s.Results) == 1 {
				snd, err := m.sendCall(r, s.Results[0], cond)
				if err != nil {
					return err
				}
				if snd != nil {
					snd.rets = []string{"err"}
					m.sends = append(m.sends, *snd)
					continue
				}
				if txt == "return linux.ENOSYS" && len(m.sends) == 0 && m.guard == "" {
					m.local = "ENOSYS"
					continue
				}
			}
			if len(m.sends) == 0 {
				return r.Refuse(s.Pos(), "return %s before any exchange in %s", txt, m.name)
			}
			last := &m.sends[len(m.sends)-1]
			if last.rets != nil {
				return r.Refuse(s.Pos(), "second return after one exchange in %s", m.name)
			}
			last.rets = m.rets(r, s)
			continue
		default:
			return r.Refuse(st.Pos(), "statement %s in %s", txt, m.name)
		}
	}
	return nil
}

// methods whose bodies are compositions: emitted as text
var cgTextual = map[string]bool{"GetXattr": true, "ListXattrs": true, "xattrWalkRead": true, "ReadAt": true, "WriteAt": true, "Renamed": true, "newFile": true}

// cgSendRecv: (withdraws on send error, does not recycle a withdrawn response, registers pending before send)
func cgSendRecv(r *Repo, fd *ast.FuncDecl) (bool, bool, bool, error) {
	list := fd.Body.List
	reg := -1
	for i, st := range list {
		if cgExprString(r, st) == "c.pending[tag(t)] = resp" {
			reg = i
		}
		if cgExprString(r, st) != "err := send(c.log, c.conn, tag(t), tm)" {
			continue
		}
		before := reg >= 0 && reg < i
		for _, nx := range list[i+1:] {
			is, ok := nx.(*ast.IfStmt)
			if !ok {
				if cgExprString(r, nx) == "c.sendMu.Unlock()" {
					continue
				}
				return false, false, false, r.Refuse(nx.Pos(), "sendRecv: statement %s between send and its error test", cgExprString(r, nx))
			}
			if !cgIsErrNotNil(is.Cond) {
				return false, false, false, r.Refuse(is.Pos(), "sendRecv: statement after send")
			}
			del, drain, keep := false, false, false
			for _, b := range is.Body.List {
				t := cgExprString(r, b)
				switch {
				case t == "c.pendingMu.Lock()" || t == "c.pendingMu.Unlock()":
				case t == "if c.pending[tag(t)] == resp { delete(c.pending, tag(t)) }":
					del = true
				case t == "select { case <-resp.done: default: }":
					drain = true
				case t == "recycle = false":
					keep = true
				case strings.HasPrefix(t, "return fmt.Errorf(\"send: %w\", err)"):
				default:
					return false, false, false, r.Refuse(b.Pos(), "sendRecv send-error path: %s", t)
				}
			}
			if del != drain {
				return false, false, false, r.Refuse(is.Pos(), "sendRecv send-error path withdraws without draining (or the reverse)")
			}
			if keep {
				// recycle must guard the deferred responsePool.Put
				ok := false
				for _, st := range list {
					if cgExprString(r, st) == "defer func() { if recycle { responsePool.Put(resp) } }()" {
						ok = true
					}
				}
				if !ok {
					return false, false, false, r.Refuse(is.Pos(), "sendRecv: recycle flag does not guard responsePool.Put")
				}
			}
			return del, keep, before, nil
		}
	}
	return false, false, false, r.Refuse(fd.Pos(), "sendRecv: send call not found")
}

// cgHandleOne: does the completion branch complete only the response the lookup accepted the frame for?
func cgHandleOne(r *Repo, fd *ast.FuncDecl) (bool, error) {
	txt := cgExprString(r, fd.Body)
	if !strings.Contains(txt, "resp := c.pending[t] delete(c.pending, t)") && !strings.Contains(txt, "resp := c.pending[t] if resp == nil || resp != found { c.pendingMu.Unlock() return } delete(c.pending, t)") {
		return false, r.Refuse(fd.Pos(), "handleOne: completion branch not recognised")
	}
	if !strings.Contains(txt, "for _, resp := range c.pending { resp.done <- err } c.pending = make(map[tag]*response)") {
		return false, r.Refuse(fd.Pos(), "handleOne: broadcast branch not recognised")
	}
	chk := strings.Contains(txt, "resp := c.pending[t] if resp == nil || resp != found { c.pendingMu.Unlock() return } delete(c.pending, t)")
	if chk && !(strings.Contains(txt, "var found *response") && strings.Contains(txt, "resp := c.pending[t] c.pendingMu.Unlock() found = resp")) {
		return false, r.Refuse(fd.Pos(), "handleOne: found is not the response the lookup returned")
	}
	return chk, nil
}

// cgMarksDead: does the receiver remember a ConnError (handleOne sets c.broken, sendRecv refuses to register once it is set)?
func cgMarksDead(r *Repo, ho, sr *ast.FuncDecl) (bool, error) {
	cgCur = cgRoles(ho)
	h := cgExprString(r, ho.Body)
	cgCur = cgRoles(sr)
	s := cgExprString(r, sr.Body)
	cgCur = nil
	sets := strings.Contains(h, "var connErr ConnError fatal := errors.As(err, &connErr) c.pendingMu.Lock() if fatal && c.broken == nil { c.broken = err } for _, resp := range c.pending")
	checks := strings.Contains(s, "c.pendingMu.Lock() if c.broken != nil { err := c.broken c.pendingMu.Unlock() return fmt.Errorf(\"connection broken: %w\", err) } c.pending[tag(t)] = resp c.pendingMu.Unlock()")
	if strings.Contains(h, "broken") != sets || strings.Contains(s, "broken") != checks || sets != checks {
		return false, r.Refuse(ho.Pos(), "handleOne/sendRecv: use of c.broken not recognised")
	}
	return sets, nil
}

// cgReleaseFID: "" (no such helper) | "refused" (Put only when err is a linux.Errno)
func cgReleaseFID(r *Repo, fd *ast.FuncDecl) (string, error) {
	if fd == nil {
		return "", nil
	}
	if cgExprString(r, fd.Body) == "{ if _, ok := err.(linux.Errno); ok { c.fidPool.Put(id) } }" {
		return "refused", nil
	}
	// any other policy is reported as what it is (the obligation release_fid_policy = "refused" then fails and
	// Fids.fid_run is instantiated with the recycling policy): guards that return, then an unconditional Put
	if n := len(fd.Body.List); n >= 1 && cgExprString(r, fd.Body.List[n-1]) == "c.fidPool.Put(id)" {
		var guards []string
		for _, st := range fd.Body.List[:n-1] {
			if is, ok := st.(*ast.IfStmt); ok && is.Else == nil && len(is.Body.List) == 1 {
				if rs, ok := is.Body.List[0].(*ast.ReturnStmt); ok && len(rs.Results) == 0 {
					guards = append(guards, cgExprString(r, is.Cond))
					continue
				}
			}
			if _, ok := st.(*ast.DeclStmt); ok {
				continue
			}
			return "", r.Refuse(st.Pos(), "releaseFID: statement %s", cgExprString(r, st))
		}
		return "unless:" + strings.Join(guards, ";"), nil
	}
	return "", r.Refuse(fd.Pos(), "releaseFID body %s", cgExprString(r, fd.Body))
}

// cgWaitAndRecv reads the hand-over of the receive token: waitAndRecv must be
//   for { select { case v := <-done: return v; case c.recvr <- true: BODY } }
// and BODY a sequence of: <-c.recvr (release), c.handleOne() (handle), return, and polls
// select { case v := <-done: ...; default: ... }.  Every path through BODY must release the token exactly once and
// before it returns.  Result: does every path poll done AFTER taking the token and BEFORE handleOne (Mux: rck)?
func cgWaitAndRecv(r *Repo, fd *ast.FuncDecl) (bool, error) {
	refuse := func(n ast.Node, what string) (bool, error) {
		return false, r.Refuse(n.Pos(), "waitAndRecv: %s", what)
	}
	if len(fd.Body.List) != 1 {
		return refuse(fd, "body is not one statement")
	}
	fs, ok := fd.Body.List[0].(*ast.ForStmt)
	if !ok || fs.Cond != nil || fs.Init != nil || fs.Post != nil || len(fs.Body.List) != 1 {
		return refuse(fd, "not a bare for loop around one statement")
	}
	sel, ok := fs.Body.List[0].(*ast.SelectStmt)
	if !ok || len(sel.Body.List) != 2 {
		return refuse(fs, "loop body is not a two-way select")
	}
	isDoneRecv := func(st ast.Stmt) bool {
		t := cgExprString(r, st)
		return strings.HasSuffix(t, "<-done")
	}
	// paths through a statement list: each path is the sequence of tokens executed
	var paths func(list []ast.Stmt) ([][]string, error)
	paths = func(list []ast.Stmt) ([][]string, error) {
		out := [][]string{{}}
		for _, st := range list {
			var alts [][]string
			switch t := cgExprString(r, st); {
			case t == "<-c.recvr":
				alts = [][]string{{"release"}}
			case t == "c.handleOne()":
				alts = [][]string{{"handle"}}
			case strings.HasPrefix(t, "return"):
				alts = [][]string{{"return"}}
			default:
				s2, ok := st.(*ast.SelectStmt)
				if !ok || len(s2.Body.List) != 2 {
					return nil, r.Refuse(st.Pos(), "waitAndRecv: statement %s after taking the token", t)
				}
				for _, cl := range s2.Body.List {
					cc := cl.(*ast.CommClause)
					sub, err := paths(cc.Body)
					if err != nil {
						return nil, err
					}
					head := "nodone"
					if cc.Comm != nil {
						if !isDoneRecv(cc.Comm) {
							return nil, r.Refuse(cc.Pos(), "waitAndRecv: inner select case %s", cgExprString(r, cc.Comm))
						}
						head = "done"
					}
					for _, p := range sub {
						alts = append(alts, append([]string{head}, p...))
					}
				}
			}
			var next [][]string
			for _, pre := range out {
				if len(pre) > 0 && pre[len(pre)-1] == "return" {
					next = append(next, pre)
					continue
				}
				for _, a := range alts {
					next = append(next, append(append([]string{}, pre...), a...))
				}
			}
			out = next
		}
		return out, nil
	}
	var tokenBody []ast.Stmt
	seenDone := false
	for _, cl := range sel.Body.List {
		cc := cl.(*ast.CommClause)
		if cc.Comm == nil {
			return refuse(cc, "outer select has a default case")
		}
		if t := cgExprString(r, cc.Comm); t == "c.recvr <- true" {
			tokenBody = cc.Body
		} else if isDoneRecv(cc.Comm) && len(cc.Body) == 1 && strings.HasPrefix(cgExprString(r, cc.Body[0]), "return") {
			seenDone = true
		} else {
			return refuse(cc, "outer select case "+t)
		}
	}
	if tokenBody == nil || !seenDone {
		return refuse(sel, "outer select is not {<-done: return; recvr <- true: ...}")
	}
	ps, err := paths(tokenBody)
	if err != nil {
		return false, err
	}
	rechecks := true
	for _, p := range ps {
		rel, polled, handled := 0, false, false
		for _, tk := range p {
			switch tk {
			case "release":
				rel++
			case "done", "nodone":
				if !handled {
					polled = true
				}
			case "handle":
				if rel != 0 {
					return refuse(sel, "handleOne without the token")
				}
				handled = true
			case "return":
				if rel != 1 {
					return refuse(sel, "returns holding the token")
				}
			}
		}
		if rel != 1 {
			return refuse(sel, "a path does not release the token exactly once")
		}
		if handled && !polled {
			rechecks = false // handleOne is entered without having looked at done since the token was taken
		}
	}
	return rechecks, nil
}

// cgNoComments: a private view of package p9 parsed WITHOUT comments, so that editing a comment changes no table.
func cgNoComments(r *Repo) (*Repo, error) {
	r2 := &Repo{Root: r.Root, Fset: token.NewFileSet(), pkgs: map[string]map[string]*ast.File{}}
	m := map[string]*ast.File{}
	ents, err := os.ReadDir(filepath.Join(r.Root, "p9"))
	if err != nil {
		return nil, err
	}
	for _, e := range ents {
		n := e.Name()
		if e.IsDir() || !strings.HasSuffix(n, ".go") || strings.HasSuffix(n, "_test.go") {
			continue
		}
		f, err := parser.ParseFile(r2.Fset, filepath.Join(r.Root, "p9", n), nil, 0)
		if err != nil {
			return nil, err
		}
		m[n] = f
	}
	r2.pkgs["p9"] = m
	return r2, nil
}

func runClientGen(r *Repo) (string, error) {
	r, err := cgNoComments(r)
	if err != nil {
		return "", err
	}
	files, err := r.Files("p9")
	if err != nil {
		return "", err
	}
	cf, ok := files["client_file.go"]
	if !ok {
		return "", fmt.Errorf("p9/client_file.go not found")
	}
	var ms []*cgMethod
	for _, d := range cf.Decls {
		fd, ok := d.(*ast.FuncDecl)
		if !ok || fd.Recv == nil || fd.Body == nil {
			continue
		}
		rt := recvTypeName(fd.Recv.List[0].Type)
		if rt == "Client" && fd.Name.Name == "releaseFID" {
			continue
		}
		if rt != "clientFile" && !(rt == "Client" && fd.Name.Name == "Attach") && !(rt == "Client" && fd.Name.Name == "newFile") {
			return "", r.Refuse(fd.Pos(), "method of unexpected receiver %s in client_file.go", rt)
		}
		cgCur = cgRoles(fd)
		m := &cgMethod{name: fd.Name.Name, asserts: map[string]string{}, clamped: map[string]bool{}, locals: map[string]*ast.CompositeLit{},
			over: map[string]ast.Expr{}, rtypes: map[string]string{}, rinits: map[string]string{}}
		for _, f := range fd.Type.Params.List {
			for _, n := range f.Names {
				m.params = append(m.params, n.Name)
			}
		}
		if cgTextual[m.name] {
			for _, st := range fd.Body.List {
				m.text = append(m.text, cgExprString(r, st))
			}
		} else if m.name == "readAt" || m.name == "writeAt" {
			// exchange first, then the tail as text
			n := 0
			for n < len(fd.Body.List) {
				if _, isIf := fd.Body.List[n].(*ast.IfStmt); !isIf {
					if _, isAs := fd.Body.List[n].(*ast.AssignStmt); !isAs {
						break
					}
				}
				if n >= 3 {
					break
				}
				n++
			}
			if err := m.block(r, fd.Body.List[:n], ""); err != nil {
				return "", err
			}
			for _, st := range fd.Body.List[n:] {
				m.text = append(m.text, cgExprString(r, st))
			}
		} else if err := m.block(r, fd.Body.List, ""); err != nil {
			return "", err
		}
		ms = append(ms, m)
	}
	cgCur = nil
	sort.Slice(ms, func(i, j int) bool { return ms[i].name < ms[j].name })
	decls, err := r.FuncDecls("p9")
	if err != nil {
		return "", err
	}
	sr, ok := decls["Client.sendRecv"]
	if !ok {
		return "", fmt.Errorf("Client.sendRecv not found")
	}
	cgCur = cgRoles(sr)
	wd, keep, regFirst, err := cgSendRecv(r, sr)
	cgCur = nil
	if err != nil {
		return "", err
	}
	ho, ok := decls["Client.handleOne"]
	if !ok {
		return "", fmt.Errorf("Client.handleOne not found")
	}
	cgCur = cgRoles(ho)
	chk, err := cgHandleOne(r, ho)
	cgCur = nil
	if err != nil {
		return "", err
	}
	marks, err := cgMarksDead(r, ho, sr)
	if err != nil {
		return "", err
	}
	wr, ok := decls["Client.waitAndRecv"]
	if !ok || wr.Body == nil {
		return "", fmt.Errorf("Client.waitAndRecv not found")
	}
	cgCur = cgRoles(wr)
	rck, err := cgWaitAndRecv(r, wr)
	cgCur = nil
	if err != nil {
		return "", err
	}
	if rf := decls["Client.releaseFID"]; rf != nil {
		cgCur = cgRoles(rf)
	}
	rel, err := cgReleaseFID(r, decls["Client.releaseFID"])
	cgCur = nil
	if err != nil {
		return "", err
	}

	// whole bodies, statement by statement (locals by role): nothing can be added to these functions unnoticed
	bodyOf := func(key string) ([]string, error) {
		fd, ok := decls[key]
		if !ok || fd.Body == nil {
			return nil, fmt.Errorf("%s not found", key)
		}
		cgCur = cgRoles(fd)
		defer func() { cgCur = nil }()
		var out []string
		for _, st := range fd.Body.List {
			out = append(out, cgExprString(r, st))
		}
		return out, nil
	}
	bodies := map[string][]string{}
	for _, k := range []string{"Client.sendRecv", "Client.handleOne", "Client.waitAndRecv", "Client.releaseFID", "pool.Get", "pool.Put"} {
		bd, err := bodyOf(k)
		if err != nil {
			return "", err
		}
		bodies[k] = bd
	}
	// NewClient: the literal bounds of the two pools
	var pools [][3]string
	if nc, ok := decls["NewClient"]; ok {
		ast.Inspect(nc.Body, func(n ast.Node) bool {
			kv, ok := n.(*ast.KeyValueExpr)
			if !ok {
				return true
			}
			key, ok := kv.Key.(*ast.Ident)
			if !ok || (key.Name != "tagPool" && key.Name != "fidPool") {
				return true
			}
			lit, ok := kv.Value.(*ast.CompositeLit)
			if !ok {
				return true
			}
			p := [3]string{key.Name, "?", "?"}
			for _, el := range lit.Elts {
				if f, ok := el.(*ast.KeyValueExpr); ok {
					v := cgExprString(r, f.Value)
					switch f.Key.(*ast.Ident).Name {
					case "start":
						p[1] = v
					case "limit":
						p[2] = v
					default:
						p[1] = "unexpected field"
					}
				}
			}
			pools = append(pools, p)
			return true
		})
	}
	if len(pools) != 2 {
		return "", fmt.Errorf("NewClient: tagPool/fidPool literals not found")
	}
	var b strings.Builder
	b.WriteString(`From Coq Require Import String List.
Import ListNotations.
Open Scope string_scope.

(* where the value of a T-message field comes from *)
Inductive gsrc :=
| GParam (name : string)            (* a parameter of the method *)
| GClamped (name : string)          (* parameter count after: if max := messageSize - (headerLength+4); count > max { count = max } *)
| GRecvFid                          (* c.fid *)
| GNewFid                           (* fid(id), id from fidPool.Get *)
| GParamFid (name : string)         (* the fid of the *clientFile that File parameter was asserted to be *)
| GConst (name : string)
| GConv (ty : string) (x : gsrc)    (* conversion ty(x) *)
| GLen (ty : string) (name : string). (* ty(len(parameter)) *)

Inductive gcond := GAlways | GWhen (pred : string) | GUnless (pred : string).

Record gsend := mkgs {
  gs_cond : gcond; gs_t : string; gs_fields : list (string * gsrc);
  gs_r : string; gs_rinit : string; gs_rets : list string;
  gs_put_on_err : string }.  (* "": the new fid is not given back; "always": fidPool.Put(id); "refused": releaseFID(id, err) *)

Record gmethod := mkgm {
  gm_name : string; gm_params : list string;
  gm_guard : string;          (* "load": EBADF when closed; "cas": closed 0->1 or EBADF; "": none *)
  gm_local : string;          (* errno returned without any message, or "" *)
  gm_sends : list gsend;
  gm_fid_get : bool;          (* fidPool.Get before the exchange *)
  gm_fid_put_ok : bool;       (* fidPool.Put(c.fid) after a successful exchange *)
  gm_text : list string }.    (* statements kept as text (compositions of other methods) *)

`)
	fmt.Fprintf(&b, "(* sendRecv: pending[t] = resp happens before send; a failed send withdraws the entry and drains done;\n   the withdrawn response is not returned to responsePool.  handleOne completes only the response the lookup accepted.\n   releaseFID puts the fid back only when the error is a linux.Errno (Rlerror). *)\n")
	fmt.Fprintf(&b, "Definition sendrecv_registers_before_send : bool := %v.\n", regFirst)
	fmt.Fprintf(&b, "Definition sendrecv_withdraws : bool := %v.\n", wd)
	fmt.Fprintf(&b, "Definition sendrecv_keeps_withdrawn : bool := %v.\n", keep)
	fmt.Fprintf(&b, "Definition handleone_checks_found : bool := %v.\n", chk)
	fmt.Fprintf(&b, "(* the receiver remembers a ConnError: later calls fail without being registered *)\nDefinition recv_error_marks_dead : bool := %v.\n", marks)
	fmt.Fprintf(&b, "(* waitAndRecv: after taking the receive token, done is polled again before handleOne is entered *)\nDefinition waitandrecv_rechecks_done : bool := %v.\n", rck)
	fmt.Fprintf(&b, "Definition release_fid_policy : string := %s.\n\n", cgQ(rel))
	for _, k := range []string{"Client.sendRecv", "Client.handleOne", "Client.waitAndRecv", "Client.releaseFID", "pool.Get", "pool.Put"} {
		var qs []string
		for _, t := range bodies[k] {
			qs = append(qs, cgQ(t))
		}
		fmt.Fprintf(&b, "Definition src_%s : list string :=\n  [%s].\n", strings.ReplaceAll(k, ".", "_"), strings.Join(qs, ";\n   "))
	}
	fmt.Fprintf(&b, "Definition newclient_pools : list (string * string * string) := [(%s, %s, %s); (%s, %s, %s)].\n\n",
		cgQ(pools[0][0]), cgQ(pools[0][1]), cgQ(pools[0][2]), cgQ(pools[1][0]), cgQ(pools[1][1]), cgQ(pools[1][2]))
	b.WriteString("Definition methods : list gmethod := [\n")
	for i, m := range ms {
		var ps, ss, ts []string
		for _, p := range m.params {
			ps = append(ps, cgQ(p))
		}
		for _, s := range m.sends {
			cond := "GAlways"
			if strings.HasPrefix(s.cond, "when:") {
				cond = "GWhen " + cgQ(strings.TrimPrefix(s.cond, "when:"))
			} else if strings.HasPrefix(s.cond, "unless:") {
				cond = "GUnless " + cgQ(strings.TrimPrefix(s.cond, "unless:"))
			}
			var fs, rs []string
			for _, f := range s.fields {
				fs = append(fs, fmt.Sprintf("(%s, %s)", cgQ(f[0]), f[1]))
			}
			for _, x := range s.rets {
				rs = append(rs, cgQ(x))
			}
			ss = append(ss, fmt.Sprintf("mkgs (%s) %s [%s] %s %s [%s] %v", cond, cgQ(s.tname), strings.Join(fs, "; "), cgQ(s.rname), cgQ(s.rinit), strings.Join(rs, "; "), cgQ(s.putErr)))
		}
		for _, t := range m.text {
			ts = append(ts, cgQ(t))
		}
		sep := ";"
		if i == len(ms)-1 {
			sep = ""
		}
		fmt.Fprintf(&b, "  mkgm %s [%s] %s %s\n    [%s]\n    %v %v [%s]%s\n", cgQ(m.name), strings.Join(ps, "; "), cgQ(m.guard), cgQ(m.local),
			strings.Join(ss, ";\n     "), m.fidGet, m.fidPut, strings.Join(ts, ";\n     "), sep)
	}
	b.WriteString("].\n")
	return b.String(), nil
}
