package main

// ResultGen (C03, result half): for every handler in p9/handlers.go, where the fields of the reply it
// returns come from.  A backend call `a, b, err := X.file.M(...)` (or `= ...`) binds its results to
// "M#0", "M#1", ...; `r, err := t.tX.do(...)` / `t.do(...)` binds "do#0"; the results of
// `doWalk(...)` are "doWalk#0"...; a reply literal `&rT{F: a, G: uint32(n), H: rU{...}}` is flattened
// to (leaf field name, source) pairs, a positional literal `&rT{x}` to (name of the first field of rT, source), `&rT{*r}` to
// ("embed", source).  A value that is not one of those bindings is printed as alpha-normalised text
// (so `Valid: AttrMaskAll` instead of the backend's mask shows up as a table difference).  No local
// name reaches the table.

import (
	"fmt"
	"go/ast"
	"go/token"
	"sort"
	"strings"
)

func init() { register(Generator{Name: "ResultGen", Run: runResultGen}) }

type rgFn struct {
	name  string
	binds map[string]string // local -> source
	rets  [][2]string       // reply type "rT" first as ("type", rT), then fields
}

func rgSelChain(e ast.Expr) []string {
	switch x := e.(type) {
	case *ast.Ident:
		return []string{x.Name}
	case *ast.SelectorExpr:
		return append(rgSelChain(x.X), x.Sel.Name)
	}
	return nil
}

func (f *rgFn) src(r *Repo, fd *ast.FuncDecl, e ast.Expr) string {
	switch x := e.(type) {
	case *ast.Ident:
		if s, ok := f.binds[x.Name]; ok {
			return s
		}
	case *ast.StarExpr:
		if id, ok := x.X.(*ast.Ident); ok {
			if s, ok := f.binds[id.Name]; ok {
				return s
			}
		}
	case *ast.CallExpr:
		if fn, ok := x.Fun.(*ast.Ident); ok && len(x.Args) == 1 {
			return fn.Name + "(" + f.src(r, fd, x.Args[0]) + ")"
		}
	}
	return "text:" + strings.Join(strings.Fields(AlphaPrint(r.Fset, fd, e)), " ")
}

// rgStructFields: field names of struct type `name` declared in the package (an embedded field is named by its type).
func rgStructFields(files map[string]*ast.File, name string) []string {
	for _, f := range files {
		for _, d := range f.Decls {
			gd, ok := d.(*ast.GenDecl)
			if !ok {
				continue
			}
			for _, sp := range gd.Specs {
				ts, ok := sp.(*ast.TypeSpec)
				if !ok || ts.Name.Name != name {
					continue
				}
				st, ok := ts.Type.(*ast.StructType)
				if !ok {
					return nil
				}
				var out []string
				for _, fl := range st.Fields.List {
					if len(fl.Names) == 0 {
						out = append(out, recvTypeName(fl.Type))
					}
					for _, n := range fl.Names {
						out = append(out, n.Name)
					}
				}
				return out
			}
		}
	}
	return nil
}

var rgFiles map[string]*ast.File

func (f *rgFn) flatten(r *Repo, fd *ast.FuncDecl, lit *ast.CompositeLit) {
	var names []string
	if id, ok := lit.Type.(*ast.Ident); ok {
		names = rgStructFields(rgFiles, id.Name)
	}
	for i, el := range lit.Elts {
		if kv, ok := el.(*ast.KeyValueExpr); ok {
			if inner, ok := kv.Value.(*ast.CompositeLit); ok {
				f.flatten(r, fd, inner)
				continue
			}
			f.rets = append(f.rets, [2]string{kv.Key.(*ast.Ident).Name, f.src(r, fd, kv.Value)})
			continue
		}
		if st, ok := el.(*ast.StarExpr); ok {
			f.rets = append(f.rets, [2]string{"embed", f.src(r, fd, st)})
			continue
		}
		fn := fmt.Sprintf("#%d", i)
		if i < len(names) {
			fn = names[i] // positional literal: the i-th field of the struct
		}
		f.rets = append(f.rets, [2]string{fn, f.src(r, fd, el)})
	}
}

func runResultGen(r *Repo) (string, error) {
	files, err := r.Files("p9")
	if err != nil {
		return "", err
	}
	rgFiles = files
	hf, ok := files["handlers.go"]
	if !ok {
		return "", fmt.Errorf("p9/handlers.go not found")
	}
	var fns []*rgFn
	for _, d := range hf.Decls {
		fd, ok := d.(*ast.FuncDecl)
		if !ok || fd.Body == nil || fd.Recv == nil {
			continue
		}
		if fd.Name.Name != "handle" && fd.Name.Name != "do" {
			continue
		}
		f := &rgFn{name: recvTypeName(fd.Recv.List[0].Type) + "." + fd.Name.Name, binds: map[string]string{}}
		var bad error
		ast.Inspect(fd.Body, func(n ast.Node) bool {
			as, ok := n.(*ast.AssignStmt)
			if !ok || len(as.Rhs) != 1 {
				return true
			}
			call, ok := as.Rhs[0].(*ast.CallExpr)
			if !ok {
				return true
			}
			origin := ""
			if id, ok := call.Fun.(*ast.Ident); ok && id.Name == "doWalk" {
				origin = "doWalk"
			} else if ch := rgSelChain(call.Fun); len(ch) >= 2 {
				m := ch[len(ch)-1]
				switch {
				case m == "do":
					origin = "do"
				case len(ch) >= 3 && ch[len(ch)-2] == "file":
					origin = m
				case len(ch) == 2 && (ch[0] == "sf" || ch[0] == "from") && false:
					origin = m
				}
			}
			if origin == "" {
				return true
			}
			for i, l := range as.Lhs {
				if id, ok := l.(*ast.Ident); ok && id.Name != "_" {
					src := fmt.Sprintf("%s#%d", origin, i)
					if old, dup := f.binds[id.Name]; dup && old != src && !(i == len(as.Lhs)-1) {
						bad = r.Refuse(as.Pos(), "local %s bound to two backend results in %s", id.Name, f.name)
					}
					if i < len(as.Lhs)-1 || len(as.Lhs) == 1 && origin == "do" { // the last result is the error
						f.binds[id.Name] = src
					}
				}
			}
			return true
		})
		if bad != nil {
			return "", bad
		}
		// the reply: the last return statement of the function body whose first result is &rT{...}
		var lit *ast.CompositeLit
		n := 0
		ast.Inspect(fd.Body, func(nd ast.Node) bool {
			if _, isLit := nd.(*ast.FuncLit); isLit {
				return false // closures return errors, not replies
			}
			ret, ok := nd.(*ast.ReturnStmt)
			if !ok || len(ret.Results) == 0 {
				return true
			}
			if u, ok := ret.Results[0].(*ast.UnaryExpr); ok && u.Op == token.AND {
				if cl, ok := u.X.(*ast.CompositeLit); ok {
					if id, ok := cl.Type.(*ast.Ident); ok && strings.HasPrefix(id.Name, "r") && id.Name != "rlerror" {
						if tn := id.Name; tn == "rversion" || tn == "rattach" {
							return true
						}
						lit = cl
						n++
					}
				}
			}
			return true
		})
		if lit == nil {
			continue // the reply is what a do function returned, or an error only
		}
		if n != 1 {
			return "", r.Refuse(fd.Pos(), "%s returns %d reply literals", f.name, n)
		}
		f.rets = append(f.rets, [2]string{"type", lit.Type.(*ast.Ident).Name})
		f.flatten(r, fd, lit)
		fns = append(fns, f)
	}
	sort.Slice(fns, func(i, j int) bool { return fns[i].name < fns[j].name })
	var b strings.Builder
	b.WriteString("From Coq Require Import String List.\nImport ListNotations.\nOpen Scope string_scope.\n\n")
	b.WriteString("(* handler function -> (reply field, where its value comes from); the first pair is (\"type\", reply type) *)\n")
	b.WriteString("Definition reply_sources : list (string * list (string * string)) := [\n")
	for i, f := range fns {
		var ps []string
		for _, p := range f.rets {
			ps = append(ps, fmt.Sprintf("(%s, %s)", CoqString(p[0]), CoqString(p[1])))
		}
		sep := ";"
		if i == len(fns)-1 {
			sep = ""
		}
		fmt.Fprintf(&b, "  (%s, [%s])%s\n", CoqString(f.name), strings.Join(ps, "; "), sep)
	}
	b.WriteString("].\n")
	return b.String(), nil
}
