package main

// LoopGen: the ORDER of the events of connState.handleRequest (p9/server.go)
// that the request-loop model (coq/Loop/Model.v) relies on, each with the
// enclosing if-conditions and the mutexes syntactically held; every call of
// send( in the server files and the mutexes held there; every assignment to a
// .wait field; the body shape of tflush.handle, StartTag, ClearTag, TagDone.
//
// The walker understands: expression statements that are calls, assignments
// and short variable declarations (calls on the right), `defer x.Done()`,
// `go func() { ... }()`, if/else with an optional init statement, return.
// A Lock()/Unlock() on cs.<mu> changes the held set; a branch that does not
// end in return must leave the held set as it found it.  Everything else in
// handleRequest (loops, switch, select, goto, unknown calls) is REFUSED.

import (
	"bytes"
	"fmt"
	"go/ast"
	"go/printer"
	"go/token"
	"sort"
	"strings"
)

type loopEvent struct {
	name  string
	conds []string
	held  []string
}

// an enclosing if-condition, rendered only when an event is emitted under it (so that conditions
// without events do not take part in the numbering of locals)
type loopCond struct {
	init ast.Stmt
	cond ast.Expr
	neg  bool
}

type loopWalker struct {
	r      *Repo
	fn     string
	events []loopEvent
	held   map[string]bool
	conds  []loopCond
	calls  []string // full text of every statement that contains an event call, in order
	depth  int      // helper methods of connState being walked in place
	// alpha-normalisation of local identifiers (scope = one function declaration)
	scope *ast.FuncDecl
	names map[*ast.Object]string
	next  int
}

// enter makes fd the scope for printing: its receiver prints as "cs" (methods of connState) or "t",
// every other local (parameter, named result, :=, var, range variable, closure parameter) as v0, v1, ...
// in the order in which they first appear in the emitted text.  Renaming a local therefore leaves
// the emitted tables unchanged; only a change of structure or order alters them.
func (w *loopWalker) enter(fd *ast.FuncDecl) {
	w.scope = fd
	w.names = map[*ast.Object]string{}
	w.next = 0
	if fd.Recv != nil && len(fd.Recv.List) == 1 && len(fd.Recv.List[0].Names) == 1 {
		id := fd.Recv.List[0].Names[0]
		if id.Obj != nil {
			if recvTypeName(fd.Recv.List[0].Type) == "connState" {
				w.names[id.Obj] = "cs"
			} else {
				w.names[id.Obj] = "t"
			}
		}
	}
}

func (w *loopWalker) isLocal(id *ast.Ident) bool {
	if id.Obj == nil || id.Obj.Kind != ast.Var || w.scope == nil {
		return false
	}
	d, ok := id.Obj.Decl.(ast.Node)
	return ok && d.Pos() >= w.scope.Pos() && d.Pos() <= w.scope.End()
}

func (w *loopWalker) src(n ast.Node) string {
	type saved struct {
		id   *ast.Ident
		name string
	}
	var undo []saved
	ast.Inspect(n, func(x ast.Node) bool {
		if id, ok := x.(*ast.Ident); ok && w.isLocal(id) {
			nm, ok := w.names[id.Obj]
			if !ok {
				nm = fmt.Sprintf("v%d", w.next)
				w.next++
				w.names[id.Obj] = nm
			}
			undo = append(undo, saved{id, id.Name})
			id.Name = nm
		}
		return true
	})
	var b bytes.Buffer
	printer.Fprint(&b, w.r.Fset, n)
	for _, u := range undo {
		u.id.Name = u.name
	}
	return strings.Join(strings.Fields(b.String()), " ")
}

func (w *loopWalker) heldList() []string {
	var l []string
	for k, v := range w.held {
		if v {
			l = append(l, k)
		}
	}
	sort.Strings(l)
	return l
}

func (w *loopWalker) condText(c loopCond) string {
	t := w.src(c.cond)
	if c.init != nil {
		t = w.src(c.init) + "; " + t
	}
	if c.neg {
		t = "!(" + t + ")"
	}
	return t
}

func (w *loopWalker) emit(name string) {
	var cs []string
	for _, c := range w.conds {
		cs = append(cs, w.condText(c))
	}
	w.events = append(w.events, loopEvent{name: name, conds: cs, held: w.heldList()})
}

// peek renders a node without letting it take part in the numbering of locals (used to recognise calls)
func (w *loopWalker) peek(n ast.Node) string {
	saved, next := w.names, w.next
	w.names = map[*ast.Object]string{}
	for k, v := range saved {
		w.names[k] = v
	}
	t := w.src(n)
	w.names, w.next = saved, next
	return t
}

// calls that are irrelevant to the model (bookkeeping, logging, pure constructors)
var loopIgnored = map[string]bool{
	"atomic.LoadInt32": true, "atomic.LoadUint32": true,
	"cs.pendingWg.Add": true, "cs.pendingWg.Done": true, "cs.server.log.Printf": true,
	"newErr": true, "cs.handleRequests": true,
}

// calls that are events of the model
var loopEvents = map[string]string{
	"recv": "recv", "recvFrame": "recv", "cs.StartTag": "StartTag", "cs.TagDone": "TagDone", "cs.handle": "handle",
	"cs.ClearTag": "ClearTag", "send": "send", "msgDotLRegistry.put": "put",
}

var loopEventNames = map[string]bool{"recv": true, "StartTag": true, "TagDone": true, "handle": true, "ClearTag": true, "send": true, "put": true}

func (w *loopWalker) call(c *ast.CallExpr) error {
	// arguments first (evaluation order)
	for _, a := range c.Args {
		if err := w.expr(a); err != nil {
			return err
		}
	}
	name := w.peek(c.Fun)
	if sel, ok := c.Fun.(*ast.SelectorExpr); ok && (sel.Sel.Name == "Lock" || sel.Sel.Name == "Unlock") {
		mu := w.peek(sel.X)
		if !strings.HasPrefix(mu, "cs.") {
			return w.r.Refuse(c.Pos(), "%s: lock operation on %s", w.fn, mu)
		}
		mu = strings.TrimPrefix(mu, "cs.")
		w.emit(mu + "." + sel.Sel.Name)
		if sel.Sel.Name == "Lock" {
			if w.held[mu] {
				return w.r.Refuse(c.Pos(), "%s: %s locked twice", w.fn, mu)
			}
			w.held[mu] = true
		} else {
			if !w.held[mu] {
				return w.r.Refuse(c.Pos(), "%s: %s unlocked while not held", w.fn, mu)
			}
			w.held[mu] = false
		}
		return nil
	}
	if ev, ok := loopEvents[name]; ok {
		w.emit(ev)
		return nil
	}
	if name == "atomic.AddInt32" {
		// the idle-receiver count decides whether a new receiver is spawned
		w.emit(w.src(c))
		return nil
	}
	if loopIgnored[name] {
		return nil
	}
	// a helper method of connState without results and without return statements (e.g. an extracted
	// `sendReply`): its body is walked in place, with the mutexes held at the call
	if strings.HasPrefix(name, "cs.") && !strings.Contains(name[3:], ".") && w.depth < 3 {
		fds, err := w.r.FuncDecls("p9")
		if err == nil {
			if fd := fds["connState."+name[3:]]; fd != nil && fd.Body != nil && fd.Type.Results == nil && loopRecvIs(fd, "cs") && !loopHasReturn(fd.Body) {
				w.depth++
				err := w.block(fd.Body)
				w.depth--
				return err
			}
		}
	}
	return w.r.Refuse(c.Pos(), "%s: call of %s", w.fn, name)
}

func loopRecvIs(fd *ast.FuncDecl, name string) bool {
	return fd.Recv != nil && len(fd.Recv.List) == 1 && len(fd.Recv.List[0].Names) == 1 && fd.Recv.List[0].Names[0].Name == name
}

func loopHasReturn(b *ast.BlockStmt) bool {
	found := false
	ast.Inspect(b, func(n ast.Node) bool {
		if _, ok := n.(*ast.ReturnStmt); ok {
			found = true
		}
		if _, ok := n.(*ast.FuncLit); ok {
			return false
		}
		return true
	})
	return found
}

func (w *loopWalker) expr(e ast.Expr) error {
	switch v := e.(type) {
	case nil:
		return nil
	case *ast.CallExpr:
		return w.call(v)
	case *ast.Ident, *ast.BasicLit:
		return nil
	case *ast.SelectorExpr:
		return w.expr(v.X)
	case *ast.UnaryExpr:
		if v.Op == token.ARROW {
			return w.r.Refuse(v.Pos(), "%s: channel receive", w.fn)
		}
		return w.expr(v.X)
	case *ast.BinaryExpr:
		if err := w.expr(v.X); err != nil {
			return err
		}
		return w.expr(v.Y)
	case *ast.ParenExpr:
		return w.expr(v.X)
	case *ast.TypeAssertExpr:
		return w.expr(v.X)
	case *ast.StarExpr:
		return w.expr(v.X)
	}
	return w.r.Refuse(e.Pos(), "%s: expression %T", w.fn, e)
}

func endsInReturn(b *ast.BlockStmt) bool {
	if b == nil || len(b.List) == 0 {
		return false
	}
	_, ok := b.List[len(b.List)-1].(*ast.ReturnStmt)
	return ok
}

func copyHeld(m map[string]bool) map[string]bool {
	n := map[string]bool{}
	for k, v := range m {
		n[k] = v
	}
	return n
}

func sameHeld(a, b map[string]bool) bool {
	for k, v := range a {
		if b[k] != v {
			return false
		}
	}
	for k, v := range b {
		if a[k] != v {
			return false
		}
	}
	return true
}

func (w *loopWalker) block(b *ast.BlockStmt) error {
	for _, s := range b.List {
		if err := w.stmt(s); err != nil {
			return err
		}
	}
	return nil
}

func (w *loopWalker) stmt(s ast.Stmt) error {
	switch s.(type) {
	case *ast.ExprStmt, *ast.AssignStmt:
		n := len(w.events)
		defer func() {
			for _, e := range w.events[n:] {
				if _, isEv := loopEventNames[e.name]; isEv {
					w.calls = append(w.calls, w.src(s))
					break
				}
			}
		}()
	}
	switch v := s.(type) {
	case *ast.ExprStmt:
		return w.expr(v.X)
	case *ast.AssignStmt:
		for _, e := range v.Rhs {
			if err := w.expr(e); err != nil {
				return err
			}
		}
		for _, l := range v.Lhs {
			if sel, ok := l.(*ast.SelectorExpr); ok && sel.Sel.Name == "wait" {
				w.emit("set-wait:" + w.src(v.Rhs[0]))
			}
			if w.peek(l) == "cs.recvShutdown" {
				w.emit("set-shutdown:" + w.src(v.Rhs[0]))
			}
		}
		return nil
	case *ast.DeferStmt:
		if n := w.peek(v.Call.Fun); !loopIgnored[n] {
			return w.r.Refuse(v.Pos(), "%s: defer %s", w.fn, n)
		}
		return nil
	case *ast.GoStmt:
		fl, ok := v.Call.Fun.(*ast.FuncLit)
		if !ok || len(v.Call.Args) != 0 {
			return w.r.Refuse(v.Pos(), "%s: go statement that is not go func() {...}()", w.fn)
		}
		// the new goroutine must run handleRequests and nothing the model knows about
		calls := 0
		var bad ast.Node
		ast.Inspect(fl.Body, func(n ast.Node) bool {
			if c, ok := n.(*ast.CallExpr); ok {
				nm := w.peek(c.Fun)
				if nm == "cs.handleRequests" {
					calls++
				} else if !loopIgnored[nm] {
					bad = c
				}
			}
			return true
		})
		if bad != nil || calls != 1 {
			return w.r.Refuse(v.Pos(), "%s: spawned goroutine is not `defer pendingWg.Done(); cs.handleRequests()`", w.fn)
		}
		w.emit("spawn")
		return nil
	case *ast.ReturnStmt:
		for _, e := range v.Results {
			if err := w.expr(e); err != nil {
				return err
			}
		}
		w.emit("return")
		return nil
	case *ast.IfStmt:
		if v.Init != nil {
			if err := w.stmt(v.Init); err != nil {
				return err
			}
		}
		if err := w.expr(v.Cond); err != nil {
			return err
		}
		before := copyHeld(w.held)
		cond := w.peek(v.Cond)
		w.conds = append(w.conds, loopCond{init: v.Init, cond: v.Cond})
		if err := w.block(v.Body); err != nil {
			return err
		}
		w.conds = w.conds[:len(w.conds)-1]
		if !endsInReturn(v.Body) && !sameHeld(before, w.held) {
			return w.r.Refuse(v.Pos(), "%s: branch `%s` changes the held mutexes and falls through", w.fn, cond)
		}
		w.held = copyHeld(before)
		if v.Else != nil {
			w.conds = append(w.conds, loopCond{init: v.Init, cond: v.Cond, neg: true})
			var err error
			var ret bool
			switch e := v.Else.(type) {
			case *ast.BlockStmt:
				err = w.block(e)
				ret = endsInReturn(e)
			default:
				err = w.stmt(e)
			}
			if err != nil {
				return err
			}
			w.conds = w.conds[:len(w.conds)-1]
			if !ret && !sameHeld(before, w.held) {
				return w.r.Refuse(v.Pos(), "%s: else branch of `%s` changes the held mutexes and falls through", w.fn, cond)
			}
			w.held = copyHeld(before)
		}
		return nil
	case *ast.DeclStmt, *ast.EmptyStmt:
		return nil
	}
	return w.r.Refuse(s.Pos(), "%s: statement %T", w.fn, s)
}

func coqStrList(l []string) string {
	var q []string
	for _, s := range l {
		q = append(q, CoqString(s))
	}
	return "[" + strings.Join(q, "; ") + "]"
}

// stmtLines renders a (small) function body as one normalised string per statement, nested blocks flattened with braces.
func stmtLines(w *loopWalker, b *ast.BlockStmt) []string {
	var out []string
	for _, s := range b.List {
		out = append(out, w.src(s))
	}
	return out
}

func genLoop(r *Repo) (string, error) {
	fds, err := r.FuncDecls("p9")
	if err != nil {
		return "", err
	}
	hr := fds["connState.handleRequest"]
	if hr == nil || hr.Body == nil {
		return "", fmt.Errorf("p9/server.go: connState.handleRequest not found")
	}
	w := &loopWalker{r: r, fn: "handleRequest", held: map[string]bool{}}
	w.enter(hr)
	if err := w.block(hr.Body); err != nil {
		return "", err
	}
	if len(w.heldList()) != 0 {
		return "", r.Refuse(hr.Body.End(), "handleRequest ends holding %v", w.heldList())
	}
	var b strings.Builder
	b.WriteString("From Coq Require Import String List.\nImport ListNotations.\nOpen Scope string_scope.\n\n")
	b.WriteString("(* events of connState.handleRequest in source order: (event, enclosing if-conditions, mutexes held before it) *)\n")
	b.WriteString("Definition handleRequest_events : list (string * list string * list string) := [\n")
	for i, e := range w.events {
		sep := ";"
		if i == len(w.events)-1 {
			sep = ""
		}
		fmt.Fprintf(&b, "  (%s, %s, %s)%s\n", CoqString(e.name), coqStrList(e.conds), coqStrList(e.held), sep)
	}
	b.WriteString("].\n\n")
	fmt.Fprintf(&b, "(* the statements of handleRequest that contain those calls, locals numbered in order of appearance: shows WHICH tag / message / reply each call gets *)\nDefinition handleRequest_calls : list string := %s.\n\n", coqStrList(w.calls))

	// every call of send( and every assignment to .wait in the server-side files, outside handleRequest
	files, err := r.Files("p9")
	if err != nil {
		return "", err
	}
	var sendSites, waitSites []string
	for _, fn := range []string{"server.go", "handlers.go", "path_tree.go", "messages.go", "transport.go"} {
		f := files[fn]
		if f == nil {
			continue
		}
		for _, d := range f.Decls {
			fd, ok := d.(*ast.FuncDecl)
			if !ok || fd.Body == nil {
				continue
			}
			name := fd.Name.Name
			if fd.Recv != nil && len(fd.Recv.List) == 1 {
				name = recvTypeName(fd.Recv.List[0].Type) + "." + name
			}
			ast.Inspect(fd.Body, func(n ast.Node) bool {
				switch v := n.(type) {
				case *ast.CallExpr:
					if id, ok := v.Fun.(*ast.Ident); ok && id.Name == "send" {
						sendSites = append(sendSites, name)
					}
				case *ast.AssignStmt:
					for _, l := range v.Lhs {
						if sel, ok := l.(*ast.SelectorExpr); ok && sel.Sel.Name == "wait" {
							waitSites = append(waitSites, name)
						}
					}
				case *ast.UnaryExpr:
					if v.Op == token.ARROW && name != "tflush.handle" && fn == "handlers.go" {
						// a channel receive in any other handler could block a handler on something the model does not know
						sendSites = append(sendSites, "chan-receive-in:"+name)
					}
				}
				return true
			})
		}
	}
	fmt.Fprintf(&b, "(* functions of server.go/handlers.go/path_tree.go/messages.go/transport.go containing a call of send( *)\nDefinition send_sites : list string := %s.\n\n", coqStrList(sendSites))
	fmt.Fprintf(&b, "(* functions assigning a .wait field *)\nDefinition wait_sites : list string := %s.\n\n", coqStrList(waitSites))

	for _, k := range []string{"tflush.handle", "connState.StartTag", "connState.ClearTag", "connState.TagDone", "connState.handleRequests"} {
		fd := fds[k]
		if fd == nil || fd.Body == nil {
			return "", fmt.Errorf("p9: %s not found", k)
		}
		id := strings.ReplaceAll(k, ".", "_")
		w.enter(fd)
		fmt.Fprintf(&b, "Definition body_%s : list string := %s.\n", id, coqStrList(stmtLines(w, fd.Body)))
	}
	// every way work could be detached from the goroutine of a handler, in EVERY non-test file of package p9:
	// go statements, timers (time.AfterFunc / NewTimer / NewTicker / After), channel sends (hand-off to a worker)
	var goSites, timerSites, chanSendSites []string
	type srcFile struct {
		name string
		f    *ast.File
	}
	var all []srcFile
	for _, fn := range SortedNames(files) {
		all = append(all, srcFile{fn, files[fn]})
	}
	for _, dir := range []string{"internal", "linux", "vecnet"} { // the packages of this module that p9 imports
		fs, err := r.Files(dir)
		if err != nil {
			continue
		}
		for _, fn := range SortedNames(fs) {
			all = append(all, srcFile{dir + "/" + fn, fs[fn]})
		}
	}
	for _, sf := range all {
		fn, f := sf.name, sf.f
		for _, d := range f.Decls {
			fd, ok := d.(*ast.FuncDecl)
			if !ok || fd.Body == nil {
				continue
			}
			name := fd.Name.Name
			if fd.Recv != nil && len(fd.Recv.List) == 1 {
				name = recvTypeName(fd.Recv.List[0].Type) + "." + name
			}
			name = fn + ":" + name
			ast.Inspect(fd.Body, func(n ast.Node) bool {
				switch v := n.(type) {
				case *ast.GoStmt:
					goSites = append(goSites, name)
				case *ast.SendStmt:
					chanSendSites = append(chanSendSites, name)
				case *ast.CallExpr:
					if sel, ok := v.Fun.(*ast.SelectorExpr); ok {
						if id, ok := sel.X.(*ast.Ident); ok && id.Name == "time" {
							switch sel.Sel.Name {
							case "AfterFunc", "NewTimer", "NewTicker", "After", "Tick":
								timerSites = append(timerSites, name)
							}
						}
					}
				}
				return true
			})
		}
	}
	fmt.Fprintf(&b, "(* file:function of every go statement in the non-test files of package p9 *)\nDefinition go_sites : list string := %s.\n", coqStrList(goSites))
	fmt.Fprintf(&b, "(* ... of every timer (time.AfterFunc/NewTimer/NewTicker/After/Tick) *)\nDefinition timer_sites : list string := %s.\n", coqStrList(timerSites))
	fmt.Fprintf(&b, "(* ... of every channel send *)\nDefinition chan_send_sites : list string := %s.\n\n", coqStrList(chanSendSites))
	pkgVars := map[string]bool{}
	for _, n := range SortedNames(files) {
		for _, d := range files[n].Decls {
			if gd, ok := d.(*ast.GenDecl); ok && gd.Tok == token.VAR {
				for _, sp := range gd.Specs {
					for _, id := range sp.(*ast.ValueSpec).Names {
						pkgVars[id.Name] = true
					}
				}
			}
		}
	}
	touched := map[string]bool{}
	for _, k := range []string{"connState.handleRequest", "connState.handleRequests", "connState.StartTag", "connState.ClearTag", "connState.TagDone", "connState.handle", "send"} {
		fd := fds[k]
		if fd == nil || fd.Body == nil {
			return "", fmt.Errorf("p9: %s not found", k)
		}
		var recvObj *ast.Object
		if fd.Recv != nil && len(fd.Recv.List) == 1 && len(fd.Recv.List[0].Names) == 1 {
			recvObj = fd.Recv.List[0].Names[0].Obj
		}
		isRecv := func(id *ast.Ident) bool { return recvObj != nil && id.Obj == recvObj }
		ast.Inspect(fd.Body, func(n ast.Node) bool {
			switch v := n.(type) {
			case *ast.SelectorExpr:
				// cs.X  or cs.server.X
				if id, ok := v.X.(*ast.Ident); ok && isRecv(id) {
					if v.Sel.Name != "server" {
						touched["cs."+v.Sel.Name] = true
					}
				}
				if in, ok := v.X.(*ast.SelectorExpr); ok {
					if id, ok := in.X.(*ast.Ident); ok && isRecv(id) && in.Sel.Name == "server" {
						touched["cs.server."+v.Sel.Name] = true
					}
				}
			case *ast.Ident:
				if pkgVars[v.Name] && v.Obj == nil {
					touched["var "+v.Name] = true
				} else if pkgVars[v.Name] {
					if _, isField := v.Obj.Decl.(*ast.Field); !isField {
						if vs, ok := v.Obj.Decl.(*ast.ValueSpec); ok && len(vs.Names) > 0 {
							touched["var "+v.Name] = true
						}
					}
				}
			}
			return true
		})
	}
	var tl []string
	for k := range touched {
		tl = append(tl, k)
	}
	sort.Strings(tl)
	fmt.Fprintf(&b, "(* state touched by handleRequest(s), StartTag, ClearTag, TagDone, handle, send: fields of the connection's own cs, of cs.server, package-level variables *)\nDefinition loop_state : list string := %s.\n\n", coqStrList(tl))

	// send: the single vectored write
	sd := fds["send"]
	if sd == nil || sd.Body == nil {
		return "", fmt.Errorf("p9/transport.go: send not found")
	}
	// the io.Writer parameter of send, and the calls of a Write* method that mention it
	var wobj *ast.Object
	for _, f := range sd.Type.Params.List {
		if sel, ok := f.Type.(*ast.SelectorExpr); ok && sel.Sel.Name == "Writer" && len(f.Names) == 1 {
			wobj = f.Names[0].Obj
		}
	}
	if wobj == nil {
		return "", r.Refuse(sd.Pos(), "send: no io.Writer parameter")
	}
	w.enter(sd)
	var writes []string
	ast.Inspect(sd.Body, func(n ast.Node) bool {
		if c, ok := n.(*ast.CallExpr); ok {
			if sel, ok := c.Fun.(*ast.SelectorExpr); ok && strings.HasPrefix(sel.Sel.Name, "Write") {
				uses := false
				ast.Inspect(c, func(x ast.Node) bool {
					if id, ok := x.(*ast.Ident); ok && id.Obj == wobj {
						uses = true
					}
					return true
				})
				if uses {
					writes = append(writes, w.src(c))
				}
			}
		}
		return true
	})
	fmt.Fprintf(&b, "(* calls in send() that write to the connection *)\nDefinition send_writes : list string := %s.\n", coqStrList(writes))
	if err := genShortSections(r, w, files, fds, &b); err != nil {
		return "", err
	}
	return b.String(), nil
}

// The "short" mutexes of a connection (fidMu: fid table, tagMu: tag table) are taken by every request; whatever
// runs while one of them is held delays every other request of the connection.  For every function of package p9
// that locks one of them: the calls made (and the blocking constructs used) while it is held, in source order.
// A call on a local (not the receiver) prints as _.Method, so the table does not depend on local names.
var shortMutexes = map[string]bool{"fidMu": true, "tagMu": true}

type shortSection struct {
	mu, fn string
	calls  []string
}

type shortWalker struct {
	r    *Repo
	w    *loopWalker
	fn   string
	secs map[string]*shortSection
	ord  []string
}

func (sw *shortWalker) note(held map[string]bool, what string) {
	var mus []string
	for mu, h := range held {
		if h {
			mus = append(mus, mu)
		}
	}
	sort.Strings(mus)
	for _, mu := range mus {
		sw.section(mu).calls = append(sw.section(mu).calls, what)
	}
}

func (sw *shortWalker) section(mu string) *shortSection {
	s := sw.secs[mu]
	if s == nil {
		s = &shortSection{mu: mu, fn: sw.fn}
		sw.secs[mu] = s
		sw.ord = append(sw.ord, mu)
	}
	return s
}

// lockOp recognises <path>.<mu>.Lock() / Unlock() on a short mutex.
func lockOp(c *ast.CallExpr) (mu, op string) {
	sel, ok := c.Fun.(*ast.SelectorExpr)
	if !ok || (sel.Sel.Name != "Lock" && sel.Sel.Name != "Unlock") {
		return "", ""
	}
	in, ok := sel.X.(*ast.SelectorExpr)
	if !ok || !shortMutexes[in.Sel.Name] {
		return "", ""
	}
	return in.Sel.Name, sel.Sel.Name
}

func (sw *shortWalker) calleeName(c *ast.CallExpr) string {
	// root identifier of a selector chain
	e := c.Fun
	for {
		if s, ok := e.(*ast.SelectorExpr); ok {
			e = s.X
			continue
		}
		break
	}
	if id, ok := e.(*ast.Ident); ok && sw.w.isLocal(id) {
		if _, isRecv := sw.w.names[id.Obj]; !isRecv {
			if sel, ok := c.Fun.(*ast.SelectorExpr); ok {
				if _, direct := sel.X.(*ast.Ident); direct {
					return "_." + sel.Sel.Name
				}
			}
			return "_..." + sw.w.peek(c.Fun)
		}
	}
	return sw.w.peek(c.Fun)
}

// collect records everything in n that runs while a short mutex is held.
func (sw *shortWalker) collect(n ast.Node, held map[string]bool) {
	any := false
	for _, h := range held {
		any = any || h
	}
	if !any || n == nil {
		return
	}
	ast.Inspect(n, func(x ast.Node) bool {
		switch v := x.(type) {
		case *ast.CallExpr:
			if mu, _ := lockOp(v); mu != "" {
				return true
			}
			sw.note(held, sw.calleeName(v))
		case *ast.UnaryExpr:
			if v.Op == token.ARROW {
				sw.note(held, "chan-receive")
			}
		case *ast.SendStmt:
			sw.note(held, "chan-send")
		case *ast.SelectStmt:
			sw.note(held, "select")
		case *ast.GoStmt:
			sw.note(held, "go")
		}
		return true
	})
}

func unionHeld(a, b map[string]bool) map[string]bool {
	n := copyHeld(a)
	for k, v := range b {
		if v {
			n[k] = true
		}
	}
	return n
}

func (sw *shortWalker) block(list []ast.Stmt, held map[string]bool) (map[string]bool, error) {
	for _, s := range list {
		var err error
		if held, err = sw.stmt(s, held); err != nil {
			return nil, err
		}
	}
	return held, nil
}

func (sw *shortWalker) stmt(s ast.Stmt, held map[string]bool) (map[string]bool, error) {
	switch v := s.(type) {
	case *ast.ExprStmt:
		if c, ok := v.X.(*ast.CallExpr); ok {
			if mu, op := lockOp(c); mu != "" {
				held = copyHeld(held)
				if op == "Lock" {
					if held[mu] {
						return nil, sw.r.Refuse(c.Pos(), "%s: %s locked twice", sw.fn, mu)
					}
					sw.section(mu)
					held[mu] = true
				} else {
					held[mu] = false
				}
				return held, nil
			}
		}
		sw.collect(v, held)
		return held, nil
	case *ast.DeferStmt:
		if mu, op := lockOp(v.Call); mu != "" {
			if op != "Unlock" {
				return nil, sw.r.Refuse(v.Pos(), "%s: defer %s.Lock", sw.fn, mu)
			}
			// held until the function returns: never cleared below
			return held, nil
		}
		// a deferred call runs at return, i.e. while every mutex released by an earlier defer is still held
		sw.collect(v.Call, held)
		return held, nil
	case *ast.IfStmt:
		if v.Init != nil {
			var err error
			if held, err = sw.stmt(v.Init, held); err != nil {
				return nil, err
			}
		}
		sw.collect(v.Cond, held)
		h1, err := sw.block(v.Body.List, copyHeld(held))
		if err != nil {
			return nil, err
		}
		out := copyHeld(held)
		if !endsInReturn(v.Body) {
			out = unionHeld(out, h1)
		}
		if v.Else != nil {
			var h2 map[string]bool
			ret := false
			switch e := v.Else.(type) {
			case *ast.BlockStmt:
				h2, err = sw.block(e.List, copyHeld(held))
				ret = endsInReturn(e)
			default:
				h2, err = sw.stmt(e, copyHeld(held))
			}
			if err != nil {
				return nil, err
			}
			if !ret {
				out = unionHeld(out, h2)
			}
		}
		return out, nil
	case *ast.BlockStmt:
		return sw.block(v.List, held)
	case *ast.ForStmt:
		sw.collect(v.Init, held)
		sw.collect(v.Cond, held)
		sw.collect(v.Post, held)
		h, err := sw.block(v.Body.List, copyHeld(held))
		if err != nil {
			return nil, err
		}
		return unionHeld(held, h), nil
	case *ast.RangeStmt:
		sw.collect(v.X, held)
		h, err := sw.block(v.Body.List, copyHeld(held))
		if err != nil {
			return nil, err
		}
		return unionHeld(held, h), nil
	case *ast.SwitchStmt, *ast.TypeSwitchStmt, *ast.SelectStmt, *ast.LabeledStmt:
		// lock operations inside these are not followed: refuse them there, record the rest
		bad := false
		ast.Inspect(s, func(x ast.Node) bool {
			if c, ok := x.(*ast.CallExpr); ok {
				if mu, _ := lockOp(c); mu != "" {
					bad = true
				}
			}
			return true
		})
		if bad {
			return nil, sw.r.Refuse(s.Pos(), "%s: lock operation on a short mutex inside %T", sw.fn, s)
		}
		sw.collect(s, held)
		return held, nil
	}
	sw.collect(s, held)
	return held, nil
}

func genShortSections(r *Repo, w *loopWalker, files map[string]*ast.File, fds map[string]*ast.FuncDecl, b *strings.Builder) error {
	var rows []string
	for _, fn := range SortedNames(files) {
		for _, d := range files[fn].Decls {
			fd, ok := d.(*ast.FuncDecl)
			if !ok || fd.Body == nil {
				continue
			}
			uses := false
			ast.Inspect(fd.Body, func(x ast.Node) bool {
				if c, ok := x.(*ast.CallExpr); ok {
					if mu, _ := lockOp(c); mu != "" {
						uses = true
					}
				}
				return true
			})
			if !uses {
				continue
			}
			name := fd.Name.Name
			if fd.Recv != nil && len(fd.Recv.List) == 1 {
				name = recvTypeName(fd.Recv.List[0].Type) + "." + name
			}
			w.enter(fd)
			sw := &shortWalker{r: r, w: w, fn: name, secs: map[string]*shortSection{}}
			// a deferred Unlock keeps the mutex to the end: walk with the explicit operations only, the defer never clears
			if _, err := sw.block(fd.Body.List, map[string]bool{}); err != nil {
				return err
			}
			// a function literal that locks (e.g. `x, ok := func() { mu.Lock(); defer mu.Unlock(); ... }()`) is a critical
			// section of the enclosing function: its body is walked on its own, from "nothing held"
			var lits []*ast.FuncLit
			ast.Inspect(fd.Body, func(x ast.Node) bool {
				if fl, ok := x.(*ast.FuncLit); ok {
					direct := false
					for _, st := range fl.Body.List {
						ast.Inspect(st, func(y ast.Node) bool {
							if _, nested := y.(*ast.FuncLit); nested {
								return false
							}
							if c, ok := y.(*ast.CallExpr); ok {
								if mu, _ := lockOp(c); mu != "" {
									direct = true
								}
							}
							return true
						})
					}
					if direct {
						lits = append(lits, fl)
					}
				}
				return true
			})
			for _, fl := range lits {
				if _, err := sw.block(fl.Body.List, map[string]bool{}); err != nil {
					return err
				}
			}
			for _, mu := range sw.ord {
				s := sw.secs[mu]
				rows = append(rows, fmt.Sprintf("  (%s, %s, %s)", CoqString(s.mu), CoqString(s.fn), coqStrList(s.calls)))
			}
		}
	}
	fmt.Fprintf(b, "\n(* (mutex, function, calls made / blocking constructs used while it is held) for every function of package p9 that locks the fid table's or the tag table's mutex *)\nDefinition short_sections : list (string * string * list string) := [\n%s\n].\n", strings.Join(rows, ";\n"))
	inc := fds["fidRef.IncRef"]
	if inc == nil || inc.Body == nil {
		return fmt.Errorf("p9: fidRef.IncRef not found")
	}
	w.enter(inc)
	fmt.Fprintf(b, "Definition body_fidRef_IncRef : list string := %s.\n", coqStrList(stmtLines(w, inc.Body)))
	return nil
}

func init() { register(Generator{Name: "LoopGen", Run: genLoop}) }
