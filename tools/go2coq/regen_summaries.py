#!/usr/bin/env python3
"""Regenerate the literal parts of coq/Server/Summaries.v (model_traces, lock_sites_expected) from a
freshly generated gen/HandlerGen.v, keeping the structure (which guard sequences are rendered from
guards_of by `rg`).  Use after a DELIBERATE change of handlers.go / server.go that was reviewed:
    python3 tools/go2coq/regen_summaries.py coq/gen/HandlerGen.v coq/Server/Summaries.v > new.v
The positional names (_v0, ...) of ref / refTarget / size per function are recovered by aligning the raw
and the alpha table."""
import re, sys

def parse_table(text, name):
    m = re.search(r'Definition %s : list \(string \* list string\) := \[\n(.*?)\n\]\.' % name, text, re.S)
    body = m.group(1)
    out = {}
    order = []
    for em in re.finditer(r'\(\s*"((?:[^"]|"")*)"\s*,\s*\[(.*?)\]\)\s*;?\s*(?=\n  \(|\Z)', body, re.S):
        fn = em.group(1)
        evs = [s.replace('""', '"') for s in re.findall(r'"((?:[^"]|"")*)"', em.group(2))]
        out[fn] = evs
        order.append(fn)
    return out, order

def coqs(s):
    return '"' + s.replace('"', '""') + '"'

GLEN = {('HRead', 1): 1, ('HRead', 4): 6, ('HRead', 6): 1, ('HWrite', 4): 1}

def main():
    gen = open(sys.argv[1]).read()
    summ = open(sys.argv[2]).read()
    raw, order = parse_table(gen, 'handler_traces')
    alpha, _ = parse_table(gen, 'handler_traces_alpha')
    m = re.search(r'(Definition model_traces : list \(string \* list string\) := \[\n)(.*?)(\n\]\.)', summ, re.S)
    entries = re.split(r'\n(?=  \(")', m.group(2))
    new_entries = []
    for ent in entries:
        fn = re.match(r'\s*\("([^"]+)"', ent).group(1)
        pieces = re.findall(r'(\[(?:\s*"(?:[^"]|"")*"\s*;?)*\]|rg (?:\([^)]*\) )?(\w+) (\d+))', ent[ent.index(','):])
        a, r = alpha[fn], raw[fn]
        assert len(a) == len(r), fn
        # names: align identifiers of raw and alpha events
        names = {}
        for x, y in zip(r, a):
            xs, ys = re.findall(r'[A-Za-z_][A-Za-z_0-9]*', x), re.findall(r'[A-Za-z_][A-Za-z_0-9]*', y)
            if len(xs) == len(ys):
                for u, v in zip(xs, ys):
                    if re.fullmatch(r'_v\d+', v):
                        names.setdefault(u, v)
        nm = '(N %s %s %s %s %s)' % tuple(coqs(names.get(k, '')) for k in ('t', 'cs', 'ref', 'refTarget', 'size'))
        pos = 0
        parts = []
        for full, k, i in pieces:
            if k:
                n = GLEN.get((k, int(i)), 3)
                parts.append('rg %s %s %s' % (nm, k, i))
                pos += n
            else:
                n = len(re.findall(r'"((?:[^"]|"")*)"', full))
                parts.append('[' + '; '.join(coqs(e) for e in a[pos:pos + n]) + ']')
                pos += n
        assert pos == len(a), (fn, pos, len(a))
        new_entries.append('  (%s,\n     (%s)%%list)' % (coqs(fn), '\n     ++ '.join(parts)))
    out = summ[:m.start()] + m.group(1) + ';\n'.join(new_entries) + m.group(3) + summ[m.end():]
    # lock sites
    lm = re.search(r'Definition lock_sites_alpha : list \(string \* string \* string\) := \[\n(.*?)\n\]\.', gen, re.S)
    out = re.sub(r'(Definition lock_sites_expected : list \(string \* string \* string\) := \[\n)(.*?)(\n\]\.)',
                 lambda mm: mm.group(1) + lm.group(1) + mm.group(3), out, flags=re.S)
    sys.stdout.write(out)

main()
