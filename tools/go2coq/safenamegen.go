package main

// SafeNameGen: p9/handlers.go checkSafeName TRANSLATED into a Gallina boolean function (coq/gen/SafeNameGen.v):
// true = the name is accepted (nil), false = refused (an error value).  Accepted grammar: a sequence of
// `if <cond> { return nil | return <err> }` ending in `return nil | return <err>`; conditions are comparisons of
// the parameter with string literals, strings.Contains / strings.ContainsRune / strings.HasPrefix on the parameter,
// len(name) comparisons with integer literals, !, &&, ||.  Server/SafeNameTie.v proves it equal to Msg.safe_nameb for every string.

import (
	"fmt"
	"go/ast"
	"go/token"
	"strconv"
	"strings"
)

func init() { register(Generator{Name: "SafeNameGen", Run: runSafeNameGen}) }

func runSafeNameGen(r *Repo) (string, error) {
	fns, err := r.FuncDecls("p9")
	if err != nil {
		return "", err
	}
	fd := fns["checkSafeName"]
	if fd == nil || len(fd.Type.Params.List) != 1 || len(fd.Type.Params.List[0].Names) != 1 {
		return "", fmt.Errorf("p9: checkSafeName(name string) not found")
	}
	param := fd.Type.Params.List[0].Names[0].Name
	var gerr error
	refuse := func(p token.Pos, f string, a ...interface{}) string {
		if gerr == nil {
			gerr = r.Refuse(p, f, a...)
		}
		return "false"
	}
	var cond func(e ast.Expr) string
	strArg := func(e ast.Expr) string {
		switch x := e.(type) {
		case *ast.Ident:
			if x.Name == param {
				return param
			}
		case *ast.BasicLit:
			if x.Kind == token.STRING {
				if s, err := strconv.Unquote(x.Value); err == nil {
					return CoqString(s)
				}
			}
			if x.Kind == token.CHAR {
				if s, err := strconv.Unquote(x.Value); err == nil {
					return CoqString(s)
				}
			}
		}
		return refuse(e.Pos(), "string %s", exprText(e))
	}
	cond = func(e ast.Expr) string {
		switch x := e.(type) {
		case *ast.ParenExpr:
			return "(" + cond(x.X) + ")"
		case *ast.UnaryExpr:
			if x.Op == token.NOT {
				return "negb (" + cond(x.X) + ")"
			}
		case *ast.CallExpr:
			fn := exprText(x.Fun)
			if (fn == "strings.Contains" || fn == "strings.ContainsRune") && len(x.Args) == 2 {
				return "(go_contains " + strArg(x.Args[0]) + " " + strArg(x.Args[1]) + ")"
			}
			if fn == "strings.HasPrefix" && len(x.Args) == 2 {
				return "(go_has_prefix " + strArg(x.Args[0]) + " " + strArg(x.Args[1]) + ")"
			}
		case *ast.BinaryExpr:
			switch x.Op {
			case token.LAND:
				return "(" + cond(x.X) + " && " + cond(x.Y) + ")"
			case token.LOR:
				return "(" + cond(x.X) + " || " + cond(x.Y) + ")"
			case token.EQL, token.NEQ:
				var c string
				if call, ok := x.X.(*ast.CallExpr); ok && exprText(call.Fun) == "len" && len(call.Args) == 1 {
					bl, ok := x.Y.(*ast.BasicLit)
					if !ok || bl.Kind != token.INT {
						return refuse(x.Pos(), "length comparison %s", exprText(x))
					}
					c = "Nat.eqb (String.length " + strArg(call.Args[0]) + ") " + bl.Value + "%nat"
				} else {
					c = "String.eqb " + strArg(x.X) + " " + strArg(x.Y)
				}
				if x.Op == token.NEQ {
					return "negb (" + c + ")"
				}
				return "(" + c + ")"
			}
		}
		return refuse(e.Pos(), "condition %s", exprText(e))
	}
	retVal := func(s ast.Stmt) (string, bool) {
		rs, ok := s.(*ast.ReturnStmt)
		if !ok || len(rs.Results) != 1 {
			return "", false
		}
		if exprText(rs.Results[0]) == "nil" {
			return "true", true
		}
		return "false", true // any error value: the name is refused (which errno is HandlerGen's business)
	}
	var b strings.Builder
	b.WriteString("From Coq Require Import String List Bool Arith.\nFrom P9V Require Import Server.SafeNamePrims.\nOpen Scope string_scope.\n\n")
	b.WriteString("(* " + r.Pos(fd.Pos()) + " *)\nDefinition gen_checkSafeName (" + param + " : string) : bool :=\n")
	st := fd.Body.List
	for i, s := range st {
		if i == len(st)-1 {
			v, ok := retVal(s)
			if !ok {
				return "", r.Refuse(s.Pos(), "last statement is not a return")
			}
			b.WriteString("  " + v + ".\n")
			break
		}
		ifs, ok := s.(*ast.IfStmt)
		if !ok || ifs.Init != nil || ifs.Else != nil || len(ifs.Body.List) != 1 {
			return "", r.Refuse(s.Pos(), "statement is not `if cond { return ... }`")
		}
		v, ok := retVal(ifs.Body.List[0])
		if !ok {
			return "", r.Refuse(s.Pos(), "if body is not a return")
		}
		b.WriteString("  if " + cond(ifs.Cond) + " then " + v + " else\n")
	}
	if gerr != nil {
		return "", gerr
	}
	return b.String(), nil
}
