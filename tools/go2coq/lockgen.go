package main

// LockGen: lock/contract tables for C07 and C16 (coq/gen/LockGen.v).
//
//  (b) contract      File method -> class documented in p9/file.go ("On the server, X has a
//                    read/write/global/no concurrency guarantee"); undocumented methods get CUndoc.
//  (a,c,d) sites     every lock acquisition, backend (File) call, guarded-map access, write/read of
//                    fidRef.opened, blocking wait and handler dispatch reached from a root
//                    (each T.handle, connState.handleRequest, connState.stop, and the client/pool/
//                    Mapper functions), each with the locks syntactically held at that point.
//
// The held sets are computed by an abstract interpreter (lockgen_interp.go) that inlines calls to
// functions of server.go / path_tree.go / handlers.go (closures included, defers LIFO) and keeps
// symbolic names for fidRefs and path nodes.  Unknown statement kinds, unbalanced lock states and
// unknown recursion shapes are REFUSED.

import (
	"fmt"
	"go/ast"
	"go/token"
	"go/types"
	"regexp"
	"sort"
	"strings"
)

// ---- symbolic path nodes / locks ------------------------------------------------------------

type lgNode struct {
	kind string // "of" (ref name), "child", "parent", "maybeparent", "tree", "var"
	name string
	sub  *lgNode
}

func (n *lgNode) coq() string {
	switch n.kind {
	case "of":
		return "(NOf " + CoqString(n.name) + ")"
	case "child":
		return "(NChild " + n.sub.coq() + " " + CoqString(n.name) + ")"
	case "parent":
		return "(NParent " + n.sub.coq() + ")"
	case "maybeparent":
		return "(NMaybeParent " + n.sub.coq() + ")"
	case "tree":
		return "NTree"
	}
	return "(NVar " + CoqString(n.name) + ")"
}

func lgParentOf(n *lgNode) *lgNode {
	if n.kind == "child" {
		return n.sub
	}
	return &lgNode{kind: "parent", sub: n}
}

type lgLock struct {
	class string // Rename Op Open Fid Tag Send Recv Child Other
	node  *lgNode
	owner string
}

func (l lgLock) coq() string {
	switch l.class {
	case "Rename":
		return "SRename"
	case "Op":
		return "(SOp " + l.node.coq() + ")"
	case "Child":
		return "(SChild " + l.node.coq() + ")"
	case "Open", "Fid", "Tag", "Send", "Recv":
		return "(S" + l.class + " " + CoqString(l.owner) + ")"
	}
	return "(SOther " + CoqString(l.owner) + ")"
}

type lgHeld struct {
	l lgLock
	w bool
	d bool // a deferred release is pending
}

func lgBool(b bool) string {
	if b {
		return "true"
	}
	return "false"
}

func lgHeldCoq(h []lgHeld) string {
	var s []string
	for _, x := range h {
		s = append(s, "("+x.l.coq()+", "+lgBool(x.w)+")")
	}
	return "[" + strings.Join(s, "; ") + "]"
}

type lgSite struct {
	root, fn, pos string
	kind          string // text of the skind constructor application
	held          []lgHeld
	facts         [][2]*lgNode
	pre           []lgHeld
	undeferred    []lgHeld
	path          []lgAct
}

// lgAct is one step of the plan leading to a site: an acquisition (with the facts known there) or a release.
type lgAct struct {
	acq   bool
	l     lgLock
	w     bool
	facts [][2]*lgNode
}

func lgFactsCoq(fs [][2]*lgNode) string {
	var s []string
	for _, f := range fs {
		s = append(s, "("+f[0].coq()+", "+f[1].coq()+")")
	}
	return "[" + strings.Join(s, "; ") + "]"
}

func lgPathCoq(p []lgAct) string {
	var s []string
	for _, a := range p {
		if a.acq {
			s = append(s, "PA "+a.l.coq()+" "+lgBool(a.w)+" "+lgFactsCoq(a.facts))
		} else {
			s = append(s, "PR "+a.l.coq())
		}
	}
	return "[" + strings.Join(s, "; ") + "]"
}

// ---- (b) contract ------------------------------------------------------------------------------

var lgGuarantee = regexp.MustCompile(`On the server, (\w+) has (a read|a write|a global|no) concurrency guarantee`)

func lgContract(r *Repo) ([]string, map[string]string, error) {
	files, err := r.Files("p9")
	if err != nil {
		return nil, nil, err
	}
	f := files["file.go"]
	if f == nil {
		return nil, nil, fmt.Errorf("p9/file.go not found")
	}
	var order []string
	cls := map[string]string{}
	found := false
	for _, d := range f.Decls {
		gd, ok := d.(*ast.GenDecl)
		if !ok {
			continue
		}
		for _, sp := range gd.Specs {
			ts, ok := sp.(*ast.TypeSpec)
			if !ok || ts.Name.Name != "File" {
				continue
			}
			it, ok := ts.Type.(*ast.InterfaceType)
			if !ok {
				return nil, nil, r.Refuse(ts.Pos(), "File is not an interface")
			}
			found = true
			for _, m := range it.Methods.List {
				if len(m.Names) != 1 {
					return nil, nil, r.Refuse(m.Pos(), "embedded interface in File")
				}
				name := m.Names[0].Name
				doc := ""
				if m.Doc != nil {
					doc = strings.Join(strings.Fields(m.Doc.Text()), " ")
				}
				ms := lgGuarantee.FindAllStringSubmatch(doc, -1)
				c := "CUndoc"
				if len(ms) > 1 {
					return nil, nil, r.Refuse(m.Pos(), "%s: more than one concurrency guarantee sentence", name)
				}
				if len(ms) == 1 {
					if ms[0][1] != name {
						return nil, nil, r.Refuse(m.Pos(), "guarantee sentence of %s names %s", name, ms[0][1])
					}
					c = map[string]string{"a read": "CRead", "a write": "CWrite", "a global": "CGlobal", "no": "CNone"}[ms[0][2]]
				} else if strings.Contains(doc, "concurrency guarantee") {
					return nil, nil, r.Refuse(m.Pos(), "%s: unrecognised concurrency guarantee wording", name)
				}
				order = append(order, name)
				cls[name] = c
			}
		}
	}
	if !found {
		return nil, nil, fmt.Errorf("p9/file.go: interface File not found")
	}
	return order, cls, nil
}

// ---- generator -----------------------------------------------------------------------------------

func genLocks(r *Repo) (string, error) {
	order, cls, err := lgContract(r)
	if err != nil {
		return "", err
	}
	var b strings.Builder
	b.WriteString("From Coq Require Import String List Bool.\nFrom P9V Require Import Locks.Sym.\nImport ListNotations.\nOpen Scope string_scope.\n\n")
	b.WriteString("(* (b) documented concurrency class per File method (p9/file.go doc comments) *)\nDefinition contract : list (string * cls) := [\n")
	for i, m := range order {
		sep := ";"
		if i == len(order)-1 {
			sep = ""
		}
		fmt.Fprintf(&b, "  (%s, %s)%s\n", CoqString(m), cls[m], sep)
	}
	b.WriteString("].\n\n")

	in := &lgInterp{r: r, fileMethods: map[string]bool{}}
	for _, m := range order {
		in.fileMethods[m] = true
	}
	if err := in.load(); err != nil {
		return "", err
	}
	if err := in.nodeSources(); err != nil {
		return "", err
	}
	roots, err := in.runAll()
	if err != nil {
		return "", err
	}
	b.WriteString("(* roots analysed (each T.handle, the request loop, stop, client/pool/Mapper functions) *)\nDefinition roots : list string := [")
	for i, rt := range roots {
		if i > 0 {
			b.WriteString("; ")
		}
		b.WriteString(CoqString(rt))
	}
	b.WriteString("].\n\n")
	b.WriteString("(* (a,c,d) sites: root, enclosing function, position, what happens, locks held (outermost first), nodes known distinct, (backend calls) every lock taken earlier on the way, those without a deferred release,\n   and (calls, acquisitions, opened accesses) the plan: every Lock/Unlock executed on the path from the start of the root *)\n")
	const chunk = 40
	nchunks := 0
	for i, s := range in.sites {
		if i%chunk == 0 {
			fmt.Fprintf(&b, "Definition sites_%d : list site := [\n", nchunks)
			nchunks++
		}
		var fs []string
		for _, f := range s.facts {
			fs = append(fs, "("+f[0].coq()+", "+f[1].coq()+")")
		}
		sep := ";"
		if i == len(in.sites)-1 || i%chunk == chunk-1 {
			sep = "\n]."
		}
		fmt.Fprintf(&b, "  mkSite %s %s %s %s %s [%s] %s %s%s\n", CoqString(s.root), CoqString(s.fn), CoqString(s.pos), s.kind, lgHeldCoq(s.held), strings.Join(fs, "; "), lgHeldCoq(s.undeferred), lgPathCoq(s.path), sep)
	}
	b.WriteString("Definition sites : list site := ")
	for i := 0; i < nchunks; i++ {
		fmt.Fprintf(&b, "sites_%d ++ ", i)
	}
	b.WriteString("[].\n\n")
	// functions outside the three files that take locks (must be known to the interpreter)
	sort.Strings(in.outsideLockers)
	b.WriteString("Definition outside_lockers : list string := [")
	for i, s := range in.outsideLockers {
		if i > 0 {
			b.WriteString("; ")
		}
		b.WriteString(CoqString(s))
	}
	b.WriteString("].\n\n")
	// "same path => same node": where path nodes live and where they are made
	b.WriteString("(* struct fields that hold path nodes (struct, ptr | map | other:<type>), field names not compared *)\nDefinition node_fields : list (string * string) := [")
	for i, nf := range in.nodeFields {
		if i > 0 {
			b.WriteString("; ")
		}
		fmt.Fprintf(&b, "(%s, %s)", CoqString(nf[0]), CoqString(nf[1]))
	}
	b.WriteString("].\n")
	b.WriteString("(* every construction of a pathNode: enclosing function, what becomes of the new node *)\nDefinition node_allocs : list (string * string) := [")
	for i, na := range in.nodeAllocs {
		if i > 0 {
			b.WriteString("; ")
		}
		fmt.Fprintf(&b, "(%s, %s)", CoqString(na[0]), CoqString(na[1]))
	}
	b.WriteString("].\n")
	// every fidRef composite literal of package p9: enclosing function, the expression given to file:, the fields set
	lits, err := fidRefLiterals(r)
	if err != nil {
		return "", err
	}
	b.WriteString("(* every fidRef literal: enclosing function, the expression assigned to file:, the fields it sets (sorted) *)\nDefinition fidref_literals : list (string * string * list string) := [")
	for i, l := range lits {
		if i > 0 {
			b.WriteString("; ")
		}
		var fs []string
		for _, f := range l.fields {
			fs = append(fs, CoqString(f))
		}
		fmt.Fprintf(&b, "\n  (%s, %s, [%s])", CoqString(l.fn), CoqString(l.file), strings.Join(fs, "; "))
	}
	b.WriteString("].\n")
	// assignments to the fields that decide whether a fid may be opened / which File it stands for, outside literals
	var ws []string
	{
		fds, err := r.FuncDecls("p9")
		if err != nil {
			return "", err
		}
		var keys []string
		for k := range fds {
			keys = append(keys, k)
		}
		sort.Strings(keys)
		for _, k := range keys {
			fd := fds[k]
			if fd.Body == nil {
				continue
			}
			ast.Inspect(fd.Body, func(n ast.Node) bool {
				as, ok := n.(*ast.AssignStmt)
				if !ok {
					return true
				}
				for _, l := range as.Lhs {
					if se, ok := l.(*ast.SelectorExpr); ok {
						switch se.Sel.Name {
						case "mode", "opened", "openFlags", "file":
							ws = append(ws, fmt.Sprintf("(%s, %s)", CoqString(k), CoqString(se.Sel.Name)))
						}
					}
				}
				return true
			})
		}
	}
	b.WriteString("(* assignments (outside literals) to a field named mode / opened / openFlags / file: enclosing function, field *)\nDefinition ref_field_writes : list (string * string) := [" + strings.Join(ws, "; ") + "].\n")
	return b.String(), nil
}

type fidRefLit struct {
	fn, file string
	fields   []string
}

func fidRefLiterals(r *Repo) ([]fidRefLit, error) {
	fds, err := r.FuncDecls("p9")
	if err != nil {
		return nil, err
	}
	var keys []string
	for k := range fds {
		keys = append(keys, k)
	}
	sort.Strings(keys)
	var out []fidRefLit
	for _, k := range keys {
		fd := fds[k]
		if fd.Body == nil {
			continue
		}
		var ferr error
		ast.Inspect(fd.Body, func(n ast.Node) bool {
			cl, ok := n.(*ast.CompositeLit)
			if !ok || cl.Type == nil || types.ExprString(cl.Type) != "fidRef" {
				return true
			}
			l := fidRefLit{fn: k}
			for _, el := range cl.Elts {
				kv, ok := el.(*ast.KeyValueExpr)
				if !ok {
					ferr = r.Refuse(el.Pos(), "fidRef literal without field names")
					return false
				}
				name := types.ExprString(kv.Key)
				l.fields = append(l.fields, name)
				if name == "file" {
					l.file = types.ExprString(kv.Value)
				}
			}
			sort.Strings(l.fields)
			out = append(out, l)
			return true
		})
		if ferr != nil {
			return nil, ferr
		}
	}
	return out, nil
}

func init() { register(Generator{Name: "LockGen", Run: genLocks}) }

// ---- path node sources ("same path => same node") ---------------------------------------------
//
// nodeFields: every struct field of package p9 whose type mentions pathNode.  nodeAllocs: every place a
// pathNode is constructed (a composite literal, new(pathNode), a call of a function whose body is such a
// construction) with the syntactic destination of the new node:
//
//	"field:T"          value of a field of a composite literal of struct T
//	"childNodes[...]"  bound to a local that the same function stores into a childNodes map
//	"return"           returned by a constructor function
//	"other:<text>"     anything else
func (in *lgInterp) nodeSources() error {
	files, err := in.r.Files("p9")
	if err != nil {
		return err
	}
	in.rootFields = map[string]string{}
	mentions := func(t ast.Expr) bool {
		found := false
		ast.Inspect(t, func(n ast.Node) bool {
			if id, ok := n.(*ast.Ident); ok && id.Name == "pathNode" {
				found = true
			}
			return true
		})
		return found
	}
	ctors := map[string]bool{} // functions that return a fresh pathNode
	isLit := func(x ast.Expr) bool {
		if u, ok := x.(*ast.UnaryExpr); ok && u.Op == token.AND {
			x = u.X
		}
		if cl, ok := x.(*ast.CompositeLit); ok && types.ExprString(cl.Type) == "pathNode" {
			return true
		}
		if ce, ok := x.(*ast.CallExpr); ok {
			if id, ok := ce.Fun.(*ast.Ident); ok && id.Name == "new" && len(ce.Args) == 1 && types.ExprString(ce.Args[0]) == "pathNode" {
				return true
			}
		}
		return false
	}
	for _, fn := range SortedNames(files) {
		for _, d := range files[fn].Decls {
			switch x := d.(type) {
			case *ast.GenDecl:
				for _, sp := range x.Specs {
					ts, ok := sp.(*ast.TypeSpec)
					if !ok {
						continue
					}
					st, ok := ts.Type.(*ast.StructType)
					if !ok {
						continue
					}
					for _, f := range st.Fields.List {
						if !mentions(f.Type) {
							continue
						}
						kind := "other:" + types.ExprString(f.Type)
						switch types.ExprString(f.Type) {
						case "*pathNode":
							kind = "ptr"
						case "map[string]*pathNode":
							kind = "map"
						}
						if len(f.Names) == 0 {
							return in.r.Refuse(f.Pos(), "embedded pathNode in struct %s", ts.Name.Name)
						}
						for _, n := range f.Names {
							in.nodeFields = append(in.nodeFields, [2]string{ts.Name.Name, kind})
							if kind == "ptr" && ts.Name.Name != "fidRef" {
								in.rootFields[n.Name] = ts.Name.Name
							}
						}
					}
				}
			case *ast.FuncDecl:
				if x.Body != nil && x.Recv == nil && len(x.Body.List) == 1 {
					if rs, ok := x.Body.List[0].(*ast.ReturnStmt); ok && len(rs.Results) == 1 && isLit(rs.Results[0]) {
						ctors[x.Name.Name] = true
					}
				}
			}
		}
	}
	sort.Slice(in.nodeFields, func(i, j int) bool {
		return in.nodeFields[i][0]+"/"+in.nodeFields[i][1] < in.nodeFields[j][0]+"/"+in.nodeFields[j][1]
	})
	isAlloc := func(x ast.Expr) bool {
		if isLit(x) {
			return true
		}
		if ce, ok := x.(*ast.CallExpr); ok {
			if id, ok := ce.Fun.(*ast.Ident); ok && ctors[id.Name] && len(ce.Args) == 0 {
				return true
			}
		}
		return false
	}
	decls, err := in.r.FuncDecls("p9")
	if err != nil {
		return err
	}
	var keys []string
	for k := range decls {
		keys = append(keys, k)
	}
	sort.Strings(keys)
	for _, k := range keys {
		fd := decls[k]
		if fd.Body == nil {
			continue
		}
		dest := map[ast.Expr]string{} // allocation expression -> destination
		var order []ast.Expr
		note := func(x ast.Expr, d string) {
			if _, seen := dest[x]; !seen {
				order = append(order, x)
			}
			dest[x] = d
		}
		locals := map[string]ast.Expr{} // local bound to an allocation
		ast.Inspect(fd.Body, func(n ast.Node) bool {
			switch s := n.(type) {
			case *ast.CompositeLit:
				tn := types.ExprString(s.Type)
				for _, el := range s.Elts {
					if kv, ok := el.(*ast.KeyValueExpr); ok && isAlloc(kv.Value) {
						note(kv.Value, "field:"+tn)
					}
				}
			case *ast.ReturnStmt:
				for _, r := range s.Results {
					if isAlloc(r) {
						note(r, "return")
					}
				}
			case *ast.AssignStmt:
				for i, r := range s.Rhs {
					if !isAlloc(r) || i >= len(s.Lhs) {
						continue
					}
					switch l := s.Lhs[i].(type) {
					case *ast.Ident:
						locals[l.Name] = r
						note(r, "other:local "+l.Name)
					case *ast.IndexExpr:
						if se, ok := l.X.(*ast.SelectorExpr); ok && se.Sel.Name == "childNodes" {
							note(r, "childNodes[...]")
						} else {
							note(r, "other:"+types.ExprString(l))
						}
					default:
						note(r, "other:"+types.ExprString(l))
					}
				}
				// x.childNodes[name] = local
				for i, r := range s.Rhs {
					id, ok := r.(*ast.Ident)
					if !ok || i >= len(s.Lhs) || locals[id.Name] == nil {
						continue
					}
					if ie, ok := s.Lhs[i].(*ast.IndexExpr); ok {
						if se, ok := ie.X.(*ast.SelectorExpr); ok && se.Sel.Name == "childNodes" {
							note(locals[id.Name], "childNodes[...]")
						}
					}
				}
			}
			return true
		})
		// any allocation not seen in one of the positions above
		ast.Inspect(fd.Body, func(n ast.Node) bool {
			if x, ok := n.(ast.Expr); ok && isAlloc(x) {
				if _, seen := dest[x]; !seen {
					note(x, "other:"+types.ExprString(x))
				}
				return false
			}
			return true
		})
		for _, x := range order {
			in.nodeAllocs = append(in.nodeAllocs, [2]string{k, dest[x]})
		}
	}
	return nil
}
