package main

// Abstract interpreter of LockGen (see lockgen.go).

import (
	"fmt"
	"go/ast"
	"go/token"
	"go/types"
	"path/filepath"
	"strings"
)

type lgRef struct {
	kind string // name parent member maybeparent
	name string
	sub  *lgRef
	node *lgNode
}

func (r *lgRef) String() string {
	switch r.kind {
	case "name":
		return r.name
	case "parent":
		return r.sub.String() + ".parent"
	case "maybeparent":
		return r.sub.String() + ".maybeParent()"
	}
	return "member(" + r.node.coq() + ")"
}

func (r *lgRef) pathNode() *lgNode {
	switch r.kind {
	case "name":
		return &lgNode{kind: "of", name: r.name}
	case "parent":
		return lgParentOf(r.sub.pathNode())
	case "maybeparent":
		return &lgNode{kind: "maybeparent", sub: r.sub.pathNode()}
	}
	return &lgNode{kind: "child", sub: r.node, name: "*"}
}

type lgFile struct {
	kind string // of walk fresh
	ref  *lgRef
	from *lgFile
	n    int
	name string
}

func (f *lgFile) node() *lgNode {
	switch f.kind {
	case "of":
		return f.ref.pathNode()
	case "walk":
		if f.n == 0 {
			return f.from.node()
		}
		return &lgNode{kind: "child", sub: f.from.node(), name: f.name}
	case "attach":
		return &lgNode{kind: "tree"}
	}
	return &lgNode{kind: "var", name: f.name}
}

type lgVal struct {
	kind string // ref node file closure nil int bool slice refset other
	ref  *lgRef
	node *lgNode
	file *lgFile
	clo  *lgClosure
	n    int
	b    bool
	text string
	// guarded maps (and aliases of them): which map, which mutex guards it
	mapName string
	want    lgLock
	elem0   string   // one-element slice x[i:i+1]: text of its element
	tuple   []*lgVal // results of an inlined call
}

type lgEnv struct {
	vars map[string]*lgVal
	up   *lgEnv
}

func (e *lgEnv) get(n string) *lgVal {
	for ; e != nil; e = e.up {
		if v, ok := e.vars[n]; ok {
			return v
		}
	}
	return nil
}

func (e *lgEnv) set(n string, v *lgVal, define bool) {
	if !define {
		for x := e; x != nil; x = x.up {
			if _, ok := x.vars[n]; ok {
				x.vars[n] = v
				return
			}
		}
	}
	e.vars[n] = v
}

type lgFrame struct {
	rets      [][]*lgVal // evaluated results of each return statement
	parent    *lgFrame
	isClosure bool
	scope     string // "" in the root function and its closures, else the inlined function's key
	key       string
	recvName  string
	recvType  string
	fileIdent map[string]bool
	defers    []func() error
}

type lgClosure struct {
	lit *ast.FuncLit
	env *lgEnv
	fr  *lgFrame
}

type lgStackEnt struct {
	key  string
	held []lgHeld
}

type lgInterp struct {
	r              *Repo
	fileMethods    map[string]bool
	decls          map[string]*ast.FuncDecl // inlinable for the current root group
	all            map[string]map[string]*ast.FuncDecl
	declFile       map[*ast.FuncDecl]string
	sites          []lgSite
	seen           map[string]bool
	held           []lgHeld
	facts          [][2]*lgNode
	alias          [][2]*lgNode // node[0] is known to be node[1] on this path
	path           []lgAct      // Lock/Unlock steps executed on this path of the root
	pre            []lgHeld     // every lock acquired so far on this path of the root (released ones included)
	stack          []lgStackEnt
	breakHeld      [][]lgHeld
	root           string
	lenient        bool
	outsideLockers []string
	interesting    map[*ast.FuncDecl]bool
	noWait         int               // inside the communication clauses of a select
	nodeFields     [][2]string       // (struct, kind) of every field holding path nodes
	nodeAllocs     [][2]string       // (function, destination) of every pathNode construction
	rootFields     map[string]string // field name -> struct, for *pathNode fields outside fidRef (tree roots)
}

const (
	lgNone = iota
	lgReturn
	lgBreak
)

var lgMutexClass = map[string]string{"renameMu": "Rename", "opMu": "Op", "childMu": "Child", "fidMu": "Fid", "tagMu": "Tag",
	"sendMu": "Send", "recvMu": "Recv", "openMu": "Open", "mu": "Other", "pendingMu": "Other"}

var lgGuardedMaps = map[string]string{"fids": "Fid", "tags": "Tag", "childNodes": "Child", "childRefs": "Child", "childRefNames": "Child",
	"cache": "pool.mu", "pending": "Client.pendingMu", "paths": "Mapper.mu"}

func (in *lgInterp) pos(p token.Pos) string {
	q := in.r.Fset.Position(p)
	return fmt.Sprintf("%s:%d", filepath.Base(q.Filename), q.Line)
}

func (in *lgInterp) refuse(p token.Pos, f string, a ...interface{}) error {
	return in.r.Refuse(p, "[root %s] "+f, append([]interface{}{in.root}, a...)...)
}

func (in *lgInterp) load() error {
	in.all = map[string]map[string]*ast.FuncDecl{}
	in.declFile = map[*ast.FuncDecl]string{}
	in.seen = map[string]bool{}
	for _, dir := range []string{"p9", "fsimpl/qids"} {
		ds, err := in.r.FuncDecls(dir)
		if err != nil {
			return err
		}
		in.all[dir] = ds
		for _, fd := range ds {
			in.declFile[fd] = filepath.Base(in.r.Fset.Position(fd.Pos()).Filename)
		}
	}
	// functions of p9 outside the interpreted files that take locks: must be the known ones
	// every file is interpreted now (server side) or is a client-side root file; kept as a cross-check:
	// a function that locks must be reachable by the interpreter, i.e. live in one of the analysed files
	known := map[string]bool{}
	for _, fd := range in.all["p9"] {
		known[in.declFile[fd]] = true
	}
	for k, fd := range in.all["p9"] {
		if known[in.declFile[fd]] || fd.Body == nil {
			continue
		}
		takes := false
		ast.Inspect(fd.Body, func(n ast.Node) bool {
			if ce, ok := n.(*ast.CallExpr); ok {
				if se, ok := ce.Fun.(*ast.SelectorExpr); ok && (se.Sel.Name == "Lock" || se.Sel.Name == "RLock") && len(ce.Args) == 0 {
					takes = true
				}
			}
			return true
		})
		if takes {
			in.outsideLockers = append(in.outsideLockers, in.declFile[fd]+":"+k)
		}
	}
	return nil
}

func (in *lgInterp) selectDecls(dir string, files ...string) {
	in.decls = map[string]*ast.FuncDecl{}
	for k, fd := range in.all[dir] {
		for _, f := range files {
			if in.declFile[fd] == f {
				in.decls[k] = fd
			}
		}
	}
	in.markInteresting()
}

// selectAllExcept: every non-test file of the package except the named ones.
func (in *lgInterp) selectAllExcept(dir string, except ...string) {
	in.decls = map[string]*ast.FuncDecl{}
	for k, fd := range in.all[dir] {
		skip := false
		for _, f := range except {
			if in.declFile[fd] == f {
				skip = true
			}
		}
		if !skip {
			in.decls[k] = fd
		}
	}
	in.markInteresting()
}

// markInteresting: the functions whose bodies (transitively, by callee name) touch a mutex, a File
// method name, a guarded map, fidRef.opened, a fidRef literal, a channel receive or a WaitGroup.
// A call that could resolve to several methods is only ambiguous among these.
func (in *lgInterp) markInteresting() {
	in.interesting = map[*ast.FuncDecl]bool{}
	calls := map[*ast.FuncDecl]map[string]bool{}
	for _, fd := range in.decls {
		if fd.Body == nil {
			continue
		}
		cs := map[string]bool{}
		hit := false
		ast.Inspect(fd.Body, func(n ast.Node) bool {
			switch x := n.(type) {
			case *ast.SelectorExpr:
				nm := x.Sel.Name
				if _, g := lgGuardedMaps[nm]; g || nm == "opened" {
					hit = true
				}
				if inner, ok := x.X.(*ast.SelectorExpr); ok && inner.Sel.Name == "file" {
					hit = true // x.file.M, called or taken as a method value
				}
			case *ast.CallExpr:
				if id, ok := x.Fun.(*ast.Ident); ok {
					cs[id.Name] = true
				}
				if se, ok := x.Fun.(*ast.SelectorExpr); ok {
					nm := se.Sel.Name
					cs[nm] = true
					if in.fileMethods[nm] || nm == "Lock" || nm == "RLock" || nm == "Unlock" || nm == "RUnlock" || nm == "Wait" || nm == "TryLock" || nm == "TryRLock" {
						hit = true
					}
				}
			case *ast.CompositeLit:
				if types.ExprString(x.Type) == "fidRef" {
					hit = true
				}
			case *ast.UnaryExpr:
				if x.Op == token.ARROW {
					hit = true
				}
			}
			return true
		})
		calls[fd] = cs
		if hit {
			in.interesting[fd] = true
		}
	}
	for changed := true; changed; {
		changed = false
		names := map[string]bool{}
		for fd := range in.interesting {
			names[fd.Name.Name] = true
		}
		for fd, cs := range calls {
			if in.interesting[fd] {
				continue
			}
			for c := range cs {
				if names[c] {
					in.interesting[fd] = true
					changed = true
					break
				}
			}
		}
	}
}

func (in *lgInterp) runAll() ([]string, error) {
	var roots []string
	run := func(keys []string, lenient bool) error {
		for _, k := range keys {
			fd := in.decls[k]
			if fd == nil {
				return fmt.Errorf("LockGen: root %s not found", k)
			}
			in.root, in.lenient, in.held, in.facts, in.stack, in.alias, in.pre, in.path = k, lenient, nil, nil, nil, nil, nil, nil
			roots = append(roots, k)
			// canonical names, independent of how the source spells its variables: the message is "msg", the connection "cs"
			recv := &lgVal{kind: "other", text: "self"}
			if fd.Recv != nil && len(fd.Recv.List[0].Names) == 1 {
				recv = &lgVal{kind: "other", text: "msg"}
				if recvTypeName(fd.Recv.List[0].Type) == "connState" {
					recv = &lgVal{kind: "other", text: "cs"}
				}
			}
			var args []*lgVal
			if fd.Type.Params != nil {
				for _, f := range fd.Type.Params.List {
					for range f.Names {
						t := "arg"
						if recvTypeName(f.Type) == "connState" {
							t = "cs"
						}
						args = append(args, &lgVal{kind: "other", text: t})
					}
				}
			}
			if _, err := in.callDecl(k, fd, recv, args, fd.Pos()); err != nil {
				return err
			}
			if len(in.held) != 0 {
				return in.refuse(fd.Pos(), "root ends holding %s", lgHeldCoq(in.held))
			}
		}
		return nil
	}
	// the server side: every non-test file of package p9 except the client's (analysed as roots of their own below)
	in.selectAllExcept("p9", "client.go", "client_file.go", "pool.go")
	var hs []string
	for k, fd := range in.decls {
		if strings.HasSuffix(k, ".handle") && in.declFile[fd] == "handlers.go" {
			hs = append(hs, k)
		}
	}
	sortStrings(hs)
	hs = append(hs, "connState.handleRequest", "connState.stop")
	if err := run(hs, false); err != nil {
		return nil, err
	}
	in.selectDecls("p9", "client.go", "pool.go")
	var cs []string
	for k, fd := range in.decls {
		if fd.Body != nil {
			cs = append(cs, k)
		}
	}
	sortStrings(cs)
	if err := run(cs, true); err != nil {
		return nil, err
	}
	in.selectDecls("fsimpl/qids", "qids.go")
	if err := run([]string{"Mapper.QIDFor"}, true); err != nil {
		return nil, err
	}
	return roots, nil
}

func sortStrings(s []string) {
	for i := 1; i < len(s); i++ {
		for j := i; j > 0 && s[j] < s[j-1]; j-- {
			s[j], s[j-1] = s[j-1], s[j]
		}
	}
}

// ---- sites ---------------------------------------------------------------------------------------

func (in *lgInterp) site(p token.Pos, kind string) {
	fn := in.root
	if len(in.stack) > 0 {
		fn = in.stack[len(in.stack)-1].key
	}
	s := lgSite{root: in.root, fn: fn, pos: in.pos(p), kind: kind, held: append([]lgHeld(nil), in.held...), facts: append([][2]*lgNode(nil), in.facts...)}
	if strings.HasPrefix(kind, "(KCall") || strings.HasPrefix(kind, "(KAcq") || strings.HasPrefix(kind, "(KField") {
		s.path = append([]lgAct(nil), in.path...)
	}
	if strings.HasPrefix(kind, "(KCall") {
		s.pre = append([]lgHeld(nil), in.pre...)
		for _, h := range in.held {
			if !h.d {
				s.undeferred = append(s.undeferred, h)
			}
		}
	}
	// backend calls and field accesses are listed per root (handler); the rest once per distinct context
	key := s.pos + "|" + kind + "|" + lgHeldCoq(s.held)
	for _, f := range s.facts {
		key += "|" + f[0].coq() + "#" + f[1].coq()
	}
	if strings.HasPrefix(kind, "(KCall") || strings.HasPrefix(kind, "(KField") {
		key = s.root + "|" + key + "|" + lgHeldCoq(s.pre) + "|" + lgHeldCoq(s.undeferred) + "|" + lgPathCoq(s.path)
	}
	if in.seen[key] {
		return
	}
	in.seen[key] = true
	in.sites = append(in.sites, s)
}

func lgHeldEq(a, b []lgHeld) bool { return lgHeldCoq(a) == lgHeldCoq(b) }

// ---- values --------------------------------------------------------------------------------------

func lgToRef(v *lgVal) *lgRef {
	if v.kind == "ref" {
		return v.ref
	}
	return &lgRef{kind: "name", name: v.text}
}

// lgNameText names a path component: the caller's text when the expression is a parameter.
func lgNameText(x ast.Expr, v *lgVal) string { return lgValText(x, v) }

func (in *lgInterp) canon(n *lgNode) *lgNode {
	for _, a := range in.alias {
		if a[0].coq() == n.coq() {
			return a[1]
		}
	}
	return n
}

func lgToNode(v *lgVal) *lgNode {
	if v.kind == "node" {
		return v.node
	}
	return &lgNode{kind: "var", name: v.text}
}

func (in *lgInterp) lockOf(x ast.Expr, env *lgEnv, fr *lgFrame) (lgLock, bool, error) {
	se, ok := x.(*ast.SelectorExpr)
	if !ok {
		return lgLock{}, false, nil
	}
	cl, ok := lgMutexClass[se.Sel.Name]
	if !ok {
		return lgLock{}, false, nil
	}
	ov, err := in.eval(se.X, env, fr)
	if err != nil {
		return lgLock{}, false, err
	}
	switch cl {
	case "Rename":
		return lgLock{class: cl}, true, nil
	case "Op", "Child":
		return lgLock{class: cl, node: in.canon(lgToNode(ov))}, true, nil
	case "Open":
		return lgLock{class: cl, owner: lgToRef(ov).String()}, true, nil
	case "Other":
		if se.Sel.Name == "pendingMu" {
			return lgLock{class: cl, owner: "Client.pendingMu"}, true, nil
		}
		return lgLock{class: cl, owner: fr.recvType + "." + se.Sel.Name}, true, nil
	}
	return lgLock{class: cl, owner: lgOwnerText(se.X, ov)}, true, nil
}

// ---- expressions ---------------------------------------------------------------------------------

func (in *lgInterp) eval(x ast.Expr, env *lgEnv, fr *lgFrame) (*lgVal, error) {
	other := func() *lgVal {
		t := types.ExprString(x)
		if _, isId := x.(*ast.Ident); isId && fr.scope != "" {
			t += "@" + fr.scope
		}
		return &lgVal{kind: "other", text: t}
	}
	switch e := x.(type) {
	case nil:
		return &lgVal{kind: "other"}, nil
	case *ast.Ident:
		switch e.Name {
		case "nil":
			return &lgVal{kind: "nil", text: "nil"}, nil
		case "true", "false":
			return &lgVal{kind: "bool", b: e.Name == "true", text: e.Name}, nil
		}
		if v := env.get(e.Name); v != nil {
			return v, nil
		}
		if fr.fileIdent[e.Name] {
			return &lgVal{kind: "file", file: &lgFile{kind: "fresh", name: e.Name}, text: e.Name}, nil
		}
		return other(), nil
	case *ast.BasicLit:
		if e.Kind == token.INT {
			n := 0
			fmt.Sscanf(e.Value, "%d", &n)
			return &lgVal{kind: "int", n: n, text: e.Value}, nil
		}
		return other(), nil
	case *ast.ParenExpr:
		return in.eval(e.X, env, fr)
	case *ast.StarExpr:
		return in.eval(e.X, env, fr)
	case *ast.FuncLit:
		return &lgVal{kind: "closure", clo: &lgClosure{lit: e, env: env, fr: fr}, text: "func"}, nil
	case *ast.SelectorExpr:
		if id, ok := e.X.(*ast.Ident); ok && env.get(id.Name) == nil && !fr.fileIdent[id.Name] {
			// package-qualified name (atomic.X, linux.EINVAL, ...) or plain field of an unbound variable
			switch e.Sel.Name {
			case "pathNode", "parent", "file", "xattrOf", "opened":
			default:
				_, guarded := lgGuardedMaps[e.Sel.Name]
				if _, root := in.rootFields[e.Sel.Name]; !guarded && !root {
					return other(), nil
				}
			}
		}
		v, err := in.eval(e.X, env, fr)
		if err != nil {
			return nil, err
		}
		switch e.Sel.Name {
		case "pathNode":
			return &lgVal{kind: "node", node: lgToRef(v).pathNode(), text: types.ExprString(x)}, nil
		}
		if owner, root := in.rootFields[e.Sel.Name]; root {
			// the root of a path tree: THE tree only if it hangs off the Server (one tree per server, shared by
			// all its connections); a root kept anywhere else is a different node for every holder
			if owner == "Server" {
				return &lgVal{kind: "node", node: &lgNode{kind: "tree"}}, nil
			}
			return &lgVal{kind: "node", node: &lgNode{kind: "var", name: "root-of:" + owner}}, nil
		}
		switch e.Sel.Name {
		case "parent":
			return &lgVal{kind: "ref", ref: &lgRef{kind: "parent", sub: lgToRef(v)}}, nil
		case "xattrOf":
			if lgToRef(v).kind == "parent" {
				// assumption A-xattr: a parent fidRef comes from a walk or create, never from Txattrwalk
				return &lgVal{kind: "nil", text: "nil"}, nil
			}
			return &lgVal{kind: "ref", ref: &lgRef{kind: "name", name: lgToRef(v).String() + ".xattrOf"}}, nil
		case "file":
			return &lgVal{kind: "file", file: &lgFile{kind: "of", ref: lgToRef(v)}}, nil
		case "opened":
			in.site(e.Pos(), fmt.Sprintf("(KField \"opened\" %s false)", CoqString(lgToRef(v).String())))
			return other(), nil
		}
		if _, ok := lgGuardedMaps[e.Sel.Name]; ok {
			want, isMap, err := in.access(e, v, false, fr)
			if err != nil {
				return nil, err
			}
			if isMap {
				k := "gmap"
				if e.Sel.Name == "childRefs" {
					k = "refset"
				} else if e.Sel.Name == "childNodes" {
					k = "nodeset"
				}
				return &lgVal{kind: k, node: in.canon(lgToNode(v)), text: types.ExprString(x), mapName: e.Sel.Name, want: want}, nil
			}
		}
		if in.fileMethods[e.Sel.Name] && v.kind == "file" && !in.lenient {
			return nil, in.refuse(e.Pos(), "method value %s of a File (call it directly)", e.Sel.Name)
		}
		if _, isMu := lgMutexClass[e.Sel.Name]; !isMu {
			if se2, ok := e.X.(*ast.SelectorExpr); ok {
				if _, isMu2 := lgMutexClass[se2.Sel.Name]; isMu2 && !in.lenient {
					return nil, in.refuse(e.Pos(), "method value / field %s of a mutex", e.Sel.Name)
				}
			}
		}
		if v.kind == "other" && v.text != "" {
			return &lgVal{kind: "other", text: v.text + "." + e.Sel.Name}, nil
		}
		return other(), nil
	case *ast.IndexExpr:
		v, err := in.eval(e.X, env, fr)
		if err != nil {
			return nil, err
		}
		iv, err := in.eval(e.Index, env, fr)
		if err != nil {
			return nil, err
		}
		in.mapUse(e.Lbrack, v, false)
		itext := "*"
		if iv.kind == "int" {
			itext = iv.text
		}
		if v.kind == "refset" {
			return v, nil
		}
		if v.kind == "nodeset" {
			return &lgVal{kind: "node", node: &lgNode{kind: "child", sub: v.node, name: lgValText(e.Index, iv)}}, nil
		}
		if v.kind == "gmap" && v.mapName == "fids" {
			// the fidRef a protocol fid field denotes: named by that field
			return &lgVal{kind: "ref", ref: &lgRef{kind: "name", name: "fid:" + strings.TrimPrefix(lgValText(e.Index, iv), "msg.")}}, nil
		}
		if v.kind == "slice" && v.n == 1 && iv.kind == "int" && iv.n == 0 && v.elem0 != "" {
			return &lgVal{kind: "other", text: v.elem0}, nil
		}
		if v.kind == "other" && v.text != "" {
			return &lgVal{kind: "other", text: v.text + "[" + itext + "]"}, nil
		}
		return other(), nil
	case *ast.SliceExpr:
		if _, err := in.eval(e.X, env, fr); err != nil {
			return nil, err
		}
		for _, s := range []ast.Expr{e.Low, e.High, e.Max} {
			if s != nil {
				if _, err := in.eval(s, env, fr); err != nil {
					return nil, err
				}
			}
		}
		// x[i:i+1] has length one
		if be, ok := e.High.(*ast.BinaryExpr); ok && e.Low != nil && be.Op == token.ADD && types.ExprString(be.X) == types.ExprString(e.Low) && types.ExprString(be.Y) == "1" {
			xv, _ := in.eval(e.X, env, fr)
			base := types.ExprString(e.X)
			if xv != nil && xv.kind == "other" && xv.text != "" {
				base = xv.text
			}
			return &lgVal{kind: "slice", n: 1, text: types.ExprString(x), elem0: base + "[*]"}, nil
		}
		return other(), nil
	case *ast.UnaryExpr:
		if e.Op == token.ARROW {
			if _, err := in.eval(e.X, env, fr); err != nil {
				return nil, err
			}
			if !in.lenient && in.noWait == 0 {
				in.site(e.Pos(), "(KWait "+CoqString("<-"+types.ExprString(e.X))+")")
			}
			return other(), nil
		}
		v, err := in.eval(e.X, env, fr)
		if err != nil {
			return nil, err
		}
		if e.Op == token.NOT && v.kind == "bool" {
			return &lgVal{kind: "bool", b: !v.b}, nil
		}
		if e.Op == token.AND {
			return v, nil
		}
		return other(), nil
	case *ast.BinaryExpr:
		a, err := in.eval(e.X, env, fr)
		if err != nil {
			return nil, err
		}
		if e.Op == token.LAND || e.Op == token.LOR {
			// short circuit: the right operand may not run; it is evaluated for its sites all the same
			b, err := in.eval(e.Y, env, fr)
			if err != nil {
				return nil, err
			}
			if a.kind == "bool" && b.kind == "bool" {
				if e.Op == token.LAND {
					return &lgVal{kind: "bool", b: a.b && b.b}, nil
				}
				return &lgVal{kind: "bool", b: a.b || b.b}, nil
			}
			return other(), nil
		}
		b, err := in.eval(e.Y, env, fr)
		if err != nil {
			return nil, err
		}
		if a.kind == "int" && b.kind == "int" {
			var r bool
			switch e.Op {
			case token.EQL:
				r = a.n == b.n
			case token.NEQ:
				r = a.n != b.n
			case token.GTR:
				r = a.n > b.n
			case token.LSS:
				r = a.n < b.n
			case token.GEQ:
				r = a.n >= b.n
			case token.LEQ:
				r = a.n <= b.n
			default:
				return other(), nil
			}
			return &lgVal{kind: "bool", b: r}, nil
		}
		if (e.Op == token.EQL || e.Op == token.NEQ) && (a.kind == "closure" || a.kind == "nil") && (b.kind == "closure" || b.kind == "nil") {
			return &lgVal{kind: "bool", b: (a.kind == b.kind) == (e.Op == token.EQL)}, nil
		}
		if (e.Op == token.EQL || e.Op == token.NEQ) && a.kind == "node" && b.kind == "node" {
			return &lgVal{kind: "nodecmp", b: e.Op == token.EQL, node: a.node, ref: &lgRef{node: b.node}}, nil
		}
		return other(), nil
	case *ast.KeyValueExpr:
		return in.eval(e.Value, env, fr)
	case *ast.CompositeLit:
		if types.ExprString(e.Type) == "fidRef" && !in.lenient {
			var fileN, nodeN *lgNode
			parent := "None"
			for _, el := range e.Elts {
				kv, ok := el.(*ast.KeyValueExpr)
				if !ok {
					return nil, in.refuse(el.Pos(), "fidRef literal without field names")
				}
				switch types.ExprString(kv.Key) {
				case "file":
					v, err := in.eval(kv.Value, env, fr)
					if err != nil {
						return nil, err
					}
					if v.kind == "file" {
						fileN = v.file.node()
					} else {
						fileN = &lgNode{kind: "var", name: lgValText(kv.Value, v)}
					}
				case "pathNode":
					v, err := in.eval(kv.Value, env, fr)
					if err != nil {
						return nil, err
					}
					if v.kind == "node" {
						nodeN = v.node
					} else {
						nodeN = &lgNode{kind: "var", name: "expr:" + lgValText(kv.Value, v)}
					}
				case "parent":
					v, err := in.eval(kv.Value, env, fr)
					if err != nil {
						return nil, err
					}
					if v.kind != "nil" {
						parent = "(Some " + lgToRef(v).pathNode().coq() + ")"
					}
				}
			}
			if fileN == nil || nodeN == nil {
				return nil, in.refuse(e.Pos(), "fidRef literal without file: or pathNode:")
			}
			in.site(e.Pos(), fmt.Sprintf("(KNew %s %s %s)", fileN.coq(), nodeN.coq(), parent))
		}
		for _, el := range e.Elts {
			v, err := in.eval(el, env, fr)
			if err != nil {
				return nil, err
			}
			if v.kind == "closure" {
				if _, err := in.callClosure(v.clo, nil, el.Pos()); err != nil {
					return nil, err
				}
			}
		}
		return &lgVal{kind: "other", text: types.ExprString(e.Type)}, nil
	case *ast.TypeAssertExpr:
		return in.eval(e.X, env, fr)
	case *ast.CallExpr:
		return in.call(e, env, fr)
	case *ast.ArrayType, *ast.MapType, *ast.ChanType, *ast.StructType, *ast.InterfaceType, *ast.FuncType:
		return other(), nil
	}
	return nil, in.refuse(x.Pos(), "expression %T", x)
}

// access records a guarded-map access.
func (in *lgInterp) access(e *ast.SelectorExpr, owner *lgVal, write bool, fr *lgFrame) (lgLock, bool, error) {
	m := e.Sel.Name
	d := lgGuardedMaps[m]
	var want lgLock
	switch d {
	case "Fid", "Tag":
		want = lgLock{class: d, owner: lgOwnerText(e.X, owner)}
	case "Child":
		want = lgLock{class: "Child", node: in.canon(lgToNode(owner))}
	default:
		if d != "Client.pendingMu" && !strings.HasPrefix(d, fr.recvType+".") {
			return want, false, nil // a field of the same name on another type
		}
		want = lgLock{class: "Other", owner: d}
	}
	in.site(e.Pos(), fmt.Sprintf("(KAccess %s %s %s)", CoqString(m), want.coq(), lgBool(write)))
	return want, true, nil
}

// mapUse records the use (index, range, len, delete, assignment) of a guarded map reached through a value, alias included.
func (in *lgInterp) mapUse(p token.Pos, v *lgVal, write bool) {
	if v != nil && v.mapName != "" {
		in.site(p, fmt.Sprintf("(KAccess %s %s %s)", CoqString(v.mapName), v.want.coq(), lgBool(write)))
	}
}

func lgOwnerText(x ast.Expr, v *lgVal) string {
	if v != nil && v.kind == "other" && v.text != "" {
		return v.text
	}
	return types.ExprString(x)
}

// lgValText: the canonical text of an evaluated expression (dataflow names), else its source text.
func lgValText(x ast.Expr, v *lgVal) string {
	if v != nil && v.kind == "other" && v.text != "" {
		return v.text
	}
	return types.ExprString(x)
}

// lhs evaluates an assignment target (recording writes to guarded maps and to fidRef.opened).
func (in *lgInterp) lhs(x ast.Expr, env *lgEnv, fr *lgFrame) error {
	switch e := x.(type) {
	case *ast.Ident:
		return nil
	case *ast.IndexExpr:
		if _, err := in.eval(e.Index, env, fr); err != nil {
			return err
		}
		if se, ok := e.X.(*ast.SelectorExpr); ok {
			if _, g := lgGuardedMaps[se.Sel.Name]; g {
				ov, err := in.eval(se.X, env, fr)
				if err != nil {
					return err
				}
				_, _, err = in.access(se, ov, true, fr)
				return err
			}
		}
		xv, err := in.eval(e.X, env, fr)
		in.mapUse(e.Lbrack, xv, true)
		return err
	case *ast.SelectorExpr:
		ov, err := in.eval(e.X, env, fr)
		if err != nil {
			return err
		}
		if e.Sel.Name == "opened" {
			in.site(e.Pos(), fmt.Sprintf("(KField \"opened\" %s true)", CoqString(lgToRef(ov).String())))
			return nil
		}
		if _, g := lgGuardedMaps[e.Sel.Name]; g {
			_, _, err := in.access(e, ov, true, fr)
			return err
		}
		return nil
	case *ast.StarExpr:
		_, err := in.eval(e.X, env, fr)
		return err
	case *ast.ParenExpr:
		return in.lhs(e.X, env, fr)
	}
	return in.refuse(x.Pos(), "assignment target %T", x)
}

// ---- calls ---------------------------------------------------------------------------------------

func (in *lgInterp) evalArgs(args []ast.Expr, env *lgEnv, fr *lgFrame) ([]*lgVal, error) {
	var out []*lgVal
	for _, a := range args {
		v, err := in.eval(a, env, fr)
		if err != nil {
			return nil, err
		}
		out = append(out, v)
	}
	return out, nil
}

func (in *lgInterp) opaque(ce *ast.CallExpr, args []*lgVal) (*lgVal, error) {
	for i, a := range args {
		if a.kind == "closure" {
			if _, err := in.callClosure(a.clo, nil, ce.Args[i].Pos()); err != nil {
				return nil, err
			}
		}
	}
	return &lgVal{kind: "other", text: types.ExprString(ce)}, nil
}

func (in *lgInterp) call(ce *ast.CallExpr, env *lgEnv, fr *lgFrame) (*lgVal, error) {
	switch f := ce.Fun.(type) {
	case *ast.FuncLit:
		args, err := in.evalArgs(ce.Args, env, fr)
		if err != nil {
			return nil, err
		}
		return in.callClosure(&lgClosure{lit: f, env: env, fr: fr}, args, ce.Pos())
	case *ast.Ident:
		if f.Name == "delete" && len(ce.Args) == 2 {
			if se, ok := ce.Args[0].(*ast.SelectorExpr); ok {
				if _, g := lgGuardedMaps[se.Sel.Name]; g {
					ov, err := in.eval(se.X, env, fr)
					if err != nil {
						return nil, err
					}
					if _, _, err := in.access(se, ov, true, fr); err != nil {
						return nil, err
					}
					_, err = in.eval(ce.Args[1], env, fr)
					return &lgVal{kind: "other"}, err
				}
			}
			mv, err := in.eval(ce.Args[0], env, fr)
			if err != nil {
				return nil, err
			}
			in.mapUse(ce.Lparen, mv, true)
			_, err = in.eval(ce.Args[1], env, fr)
			return &lgVal{kind: "other"}, err
		}
		args, err := in.evalArgs(ce.Args, env, fr)
		if err != nil {
			return nil, err
		}
		if f.Name == "len" && len(args) == 1 {
			in.mapUse(ce.Lparen, args[0], false)
			switch args[0].kind {
			case "nil":
				return &lgVal{kind: "int", n: 0}, nil
			case "slice":
				return &lgVal{kind: "int", n: args[0].n}, nil
			}
		}
		if f.Name == "append" && len(args) >= 2 && args[1].kind == "ref" && args[1].ref.kind == "member" {
			return &lgVal{kind: "refset", node: args[1].ref.node}, nil
		}
		if v := env.get(f.Name); v != nil {
			if v.kind == "closure" {
				return in.callClosure(v.clo, args, ce.Pos())
			}
			if v.kind == "nil" {
				return nil, in.refuse(ce.Pos(), "call of a nil function value %s", f.Name)
			}
			return in.opaque(ce, args)
		}
		if fd := in.decls[f.Name]; fd != nil && fd.Recv == nil && in.interesting[fd] {
			return in.callDecl(f.Name, fd, nil, args, ce.Pos())
		}
		return in.opaque(ce, args)
	case *ast.SelectorExpr:
		m := f.Sel.Name
		// mutex operations
		if m == "Lock" || m == "RLock" || m == "Unlock" || m == "RUnlock" {
			l, ok, err := in.lockOf(f.X, env, fr)
			if err != nil {
				return nil, err
			}
			if ok {
				if len(ce.Args) != 0 {
					return nil, in.refuse(ce.Pos(), "mutex method with arguments")
				}
				return &lgVal{kind: "other"}, in.lockOp(ce.Pos(), l, m)
			}
		}
		if m == "maybeParent" {
			v, err := in.eval(f.X, env, fr)
			if err != nil {
				return nil, err
			}
			return &lgVal{kind: "ref", ref: &lgRef{kind: "maybeparent", sub: lgToRef(v)}}, nil
		}
		recv, err := in.eval(f.X, env, fr)
		if err != nil {
			return nil, err
		}
		args, err := in.evalArgs(ce.Args, env, fr)
		if err != nil {
			return nil, err
		}
		if (m == "IncRef" || m == "TryIncRef") && !in.lenient && len(ce.Args) == 0 {
			// acquisition of a fidRef reference; weak: the fidRef was found in a path node's childRefs
			if recv.kind == "ref" {
				in.site(ce.Pos(), fmt.Sprintf("(KRef %s %s)", CoqString(m), lgBool(recv.ref.kind == "member")))
			} else if recv.kind != "other" || !strings.HasSuffix(fr.recvType, "fidRef") {
				in.site(ce.Pos(), fmt.Sprintf("(KRef %s false)", CoqString(m)))
			}
		}
		if in.fileMethods[m] && !in.lenient {
			if recv.kind == "file" {
				n := recv.file.node()
				extra := "None"
				if m == "UnlinkAt" && len(ce.Args) > 0 {
					extra = "(Some " + (&lgNode{kind: "child", sub: n, name: lgNameText(ce.Args[0], args[0])}).coq() + ")"
				}
				in.site(ce.Pos(), fmt.Sprintf("(KCall %s %s %s)", CoqString(m), n.coq(), extra))
				if (m == "Walk" || m == "WalkGetAttr") && len(args) == 1 {
					a := args[0]
					switch a.kind {
					case "nil":
						return &lgVal{kind: "walked", file: &lgFile{kind: "walk", from: recv.file, n: 0}}, nil
					case "slice":
						if a.n == 1 {
							nm := a.elem0
							if nm == "" {
								nm = lgNameText(ce.Args[0], args[0]) + "[0]"
							}
							return &lgVal{kind: "walked", file: &lgFile{kind: "walk", from: recv.file, n: 1, name: nm}}, nil
						}
					}
					return nil, in.refuse(ce.Pos(), "%s with a name list of unknown length", m)
				}
				if m == "Create" && len(args) > 0 {
					return &lgVal{kind: "created", file: &lgFile{kind: "walk", from: recv.file, n: 1, name: lgNameText(ce.Args[0], args[0])}}, nil
				}
				return in.opaque(ce, args)
			}
			tx := types.ExprString(f.X)
			if m == "Close" && (tx == "cs.r" || tx == "cs.t") {
				return in.opaque(ce, args)
			}
			return nil, in.refuse(ce.Pos(), "call of File method name %s on %s (not recognised as a File)", m, tx)
		}
		if m == "Wait" && strings.HasSuffix(types.ExprString(f.X), "Wg") && !in.lenient {
			in.site(ce.Pos(), "(KWait "+CoqString(types.ExprString(f.X)+".Wait")+")")
			return &lgVal{kind: "other"}, nil
		}
		// method of the interpreted files
		var cands []string
		for k, fd := range in.decls {
			if fd.Recv != nil && strings.HasSuffix(k, "."+m) && in.interesting[fd] {
				cands = append(cands, k)
			}
		}
		sortStrings(cands)
		if len(cands) == 0 {
			return in.opaque(ce, args)
		}
		key := ""
		if id, ok := f.X.(*ast.Ident); ok && id.Name == fr.recvName && in.decls[fr.recvType+"."+m] != nil {
			key = fr.recvType + "." + m
		} else if se, ok := f.X.(*ast.SelectorExpr); ok && in.decls[se.Sel.Name+"."+m] != nil {
			key = se.Sel.Name + "." + m
		} else if len(cands) == 1 {
			key = cands[0]
		} else if m == "handle" && !in.lenient {
			in.site(ce.Pos(), "KDispatch")
			return &lgVal{kind: "other"}, nil
		} else if in.lenient {
			return in.opaque(ce, args)
		} else {
			return nil, in.refuse(ce.Pos(), "ambiguous method %s (%v)", m, cands)
		}
		v, err := in.callDecl(key, in.decls[key], recv, args, ce.Pos())
		if err != nil {
			return nil, err
		}
		// results the tables need
		switch key {
		case "pathNode.pathNodeFor", "pathNode.removeWithName":
			if len(ce.Args) > 0 {
				return &lgVal{kind: "node", node: &lgNode{kind: "child", sub: lgToNode(recv), name: lgNameText(ce.Args[0], args[0])}}, nil
			}
		}
		return v, nil
	}
	// conversions, calls of call results ...
	if _, err := in.eval(ce.Fun, env, fr); err != nil {
		return nil, err
	}
	args, err := in.evalArgs(ce.Args, env, fr)
	if err != nil {
		return nil, err
	}
	return in.opaque(ce, args)
}

func (in *lgInterp) lockOp(p token.Pos, l lgLock, m string) error {
	switch m {
	case "Lock", "RLock":
		in.site(p, fmt.Sprintf("(KAcq %s %s)", l.coq(), lgBool(m == "Lock")))
		in.held = append(in.held, lgHeld{l: l, w: m == "Lock"})
		in.path = append(in.path[:len(in.path):len(in.path)], lgAct{acq: true, l: l, w: m == "Lock", facts: append([][2]*lgNode(nil), in.facts...)})
		dup := false
		for _, x := range in.pre {
			if x.l.coq() == l.coq() && x.w == (m == "Lock") {
				dup = true
			}
		}
		if !dup {
			in.pre = append(in.pre[:len(in.pre):len(in.pre)], lgHeld{l: l, w: m == "Lock"})
		}
		return nil
	}
	for i := len(in.held) - 1; i >= 0; i-- {
		if in.held[i].l.coq() == l.coq() && in.held[i].w == (m == "Unlock") {
			in.held = append(in.held[:i:i], in.held[i+1:]...)
			in.path = append(in.path[:len(in.path):len(in.path)], lgAct{l: l, w: m == "Unlock"})
			return nil
		}
	}
	return in.refuse(p, "%s of %s which is not held (held: %s)", m, l.coq(), lgHeldCoq(in.held))
}

func (in *lgInterp) enter(key string, p token.Pos) (bool, error) {
	n := 0
	var prev []lgHeld
	for _, s := range in.stack {
		if s.key == key {
			n++
			prev = s.held
		}
	}
	if len(in.stack) > 200 {
		return false, in.refuse(p, "call depth")
	}
	if n >= 2 {
		// recursion cut: sound only for the two shapes below
		if lgHeldEq(prev, in.held) {
			return false, nil
		}
		if len(in.held) == len(prev)+1 && lgHeldEq(prev, in.held[:len(prev)]) {
			x := in.held[len(prev)]
			if x.l.class == "Child" && !x.w && x.l.node.kind == "child" {
				return false, nil
			}
		}
		return false, in.refuse(p, "recursion of %s with an unknown lock shape: %s then %s", key, lgHeldCoq(prev), lgHeldCoq(in.held))
	}
	in.stack = append(in.stack, lgStackEnt{key: key, held: append([]lgHeld(nil), in.held...)})
	return true, nil
}

func lgFileIdents(ft *ast.FuncType, body *ast.BlockStmt) map[string]bool {
	out := map[string]bool{}
	isFile := func(t ast.Expr) bool { id, ok := t.(*ast.Ident); return ok && id.Name == "File" }
	for _, fl := range []*ast.FieldList{ft.Params, ft.Results} {
		if fl == nil {
			continue
		}
		for _, f := range fl.List {
			if isFile(f.Type) {
				for _, n := range f.Names {
					out[n.Name] = true
				}
			}
		}
	}
	if body != nil {
		ast.Inspect(body, func(n ast.Node) bool {
			if _, ok := n.(*ast.FuncLit); ok {
				return false
			}
			if vs, ok := n.(*ast.ValueSpec); ok && vs.Type != nil && isFile(vs.Type) {
				for _, id := range vs.Names {
					out[id.Name] = true
				}
			}
			return true
		})
	}
	return out
}

func (in *lgInterp) runBody(fr *lgFrame, env *lgEnv, body *ast.BlockStmt, key string, p token.Pos) error {
	entry := append([]lgHeld(nil), in.held...)
	bh := in.breakHeld
	in.breakHeld = nil
	defer func() { in.breakHeld = bh }()
	if _, err := in.block(body.List, env, fr); err != nil {
		return err
	}
	for i := len(fr.defers) - 1; i >= 0; i-- {
		if err := fr.defers[i](); err != nil {
			return err
		}
	}
	in.breakHeld = bh
	if !lgHeldEq(entry, in.held) {
		return in.refuse(p, "%s returns holding %s, entered holding %s", key, lgHeldCoq(in.held), lgHeldCoq(entry))
	}
	return nil
}

func (in *lgInterp) callDecl(key string, fd *ast.FuncDecl, recv *lgVal, args []*lgVal, p token.Pos) (*lgVal, error) {
	if fd.Body == nil {
		return &lgVal{kind: "other"}, nil
	}
	ok, err := in.enter(key, p)
	if err != nil || !ok {
		return &lgVal{kind: "other"}, err
	}
	defer func() { in.stack = in.stack[:len(in.stack)-1] }()
	env := &lgEnv{vars: map[string]*lgVal{}}
	fr := &lgFrame{key: key, fileIdent: lgFileIdents(fd.Type, fd.Body)}
	if key != in.root {
		fr.scope = key
	}
	if fd.Recv != nil {
		fr.recvType = recvTypeName(fd.Recv.List[0].Type)
		if len(fd.Recv.List[0].Names) == 1 && recv != nil {
			fr.recvName = fd.Recv.List[0].Names[0].Name
			env.vars[fr.recvName] = recv
		}
	}
	i := 0
	if fd.Type.Params != nil {
		for _, f := range fd.Type.Params.List {
			for _, n := range f.Names {
				if i < len(args) && n.Name != "_" {
					env.vars[n.Name] = args[i]
				}
				i++
			}
		}
	}
	saveFacts := in.facts
	err = in.runBody(fr, env, fd.Body, key, p)
	in.facts = saveFacts
	out := &lgVal{kind: "other", text: key + "()"}
	for i := len(fr.rets) - 1; i >= 0; i-- {
		sym := false
		for _, v := range fr.rets[i] {
			switch v.kind {
			case "ref", "node", "file", "gmap", "refset", "nodeset":
				sym = true
			}
		}
		if sym {
			if len(fr.rets[i]) == 1 {
				return fr.rets[i][0], err
			}
			out = &lgVal{kind: "tuple", tuple: fr.rets[i], text: key + "()"}
			break
		}
	}
	// named results assigned in the body (qids, sf, ... = ...; return)
	if out.kind != "tuple" && fd.Type.Results != nil {
		var named []*lgVal
		sym := false
		for _, f := range fd.Type.Results.List {
			for _, n := range f.Names {
				v := env.vars[n.Name]
				if v == nil {
					v = &lgVal{kind: "other"}
				}
				switch v.kind {
				case "ref", "node", "file":
					sym = true
				}
				named = append(named, v)
			}
		}
		if sym && len(named) > 1 {
			out = &lgVal{kind: "tuple", tuple: named, text: key + "()"}
		}
	}
	return out, err
}

func (in *lgInterp) callClosure(c *lgClosure, args []*lgVal, p token.Pos) (*lgVal, error) {
	key := fmt.Sprintf("func@%s", in.pos(c.lit.Pos()))
	ok, err := in.enter(key, p)
	if err != nil || !ok {
		return &lgVal{kind: "other"}, err
	}
	defer func() { in.stack = in.stack[:len(in.stack)-1] }()
	env := &lgEnv{vars: map[string]*lgVal{}, up: c.env}
	fi := lgFileIdents(c.lit.Type, c.lit.Body)
	for k, v := range c.fr.fileIdent {
		if v {
			fi[k] = true
		}
	}
	fr := &lgFrame{key: key, scope: c.fr.scope, recvName: c.fr.recvName, recvType: c.fr.recvType, fileIdent: fi}
	i := 0
	if c.lit.Type.Params != nil {
		for _, f := range c.lit.Type.Params.List {
			for _, n := range f.Names {
				if i < len(args) && n.Name != "_" {
					env.vars[n.Name] = args[i]
				}
				i++
			}
		}
	}
	saveFacts := in.facts
	err = in.runBody(fr, env, c.lit.Body, key, p)
	in.facts = saveFacts
	return &lgVal{kind: "other"}, err
}

// ---- statements ----------------------------------------------------------------------------------

func (in *lgInterp) block(list []ast.Stmt, env *lgEnv, fr *lgFrame) (int, error) {
	for _, s := range list {
		t, err := in.stmt(s, env, fr)
		if err != nil || t != lgNone {
			return t, err
		}
	}
	return lgNone, nil
}

// branches runs alternatives from the same entry state and merges them.
func (in *lgInterp) branches(p token.Pos, alts []func() (int, error), mayskip bool) (int, error) {
	entry := append([]lgHeld(nil), in.held...)
	facts := in.facts
	alias := in.alias
	pre := in.pre
	path := in.path
	repPath := path
	var preOut []lgHeld
	var out []lgHeld
	have := mayskip
	if mayskip {
		out = entry
	}
	allTerm := lgReturn
	for _, a := range alts {
		in.held = append([]lgHeld(nil), entry...)
		in.facts = facts
		in.alias = alias
		in.pre = pre
		in.path = path
		t, err := a()
		if err != nil {
			return lgNone, err
		}
		if t == lgNone {
			repPath = in.path
		}
		if t == lgNone || t == lgBreak {
			for _, x := range in.pre {
				dup := false
				for _, y := range preOut {
					if y.l.coq() == x.l.coq() && y.w == x.w {
						dup = true
					}
				}
				if !dup {
					preOut = append(preOut, x)
				}
			}
		}
		if t == lgNone {
			if have && !lgHeldEq(out, in.held) {
				return lgNone, in.refuse(p, "branches end with different locks held: %s / %s", lgHeldCoq(out), lgHeldCoq(in.held))
			}
			out, have = append([]lgHeld(nil), in.held...), true
		} else if t == lgBreak {
			allTerm = lgBreak
		}
	}
	in.facts = facts
	in.alias = alias
	if mayskip || len(preOut) == 0 {
		for _, x := range pre {
			dup := false
			for _, y := range preOut {
				if y.l.coq() == x.l.coq() && y.w == x.w {
					dup = true
				}
			}
			if !dup {
				preOut = append(preOut, x)
			}
		}
	}
	in.pre = preOut
	in.path = repPath
	if !have {
		in.held = entry
		return allTerm, nil
	}
	in.held = out
	return lgNone, nil
}

func (in *lgInterp) bind(lhs []ast.Expr, vals []*lgVal, define bool, env *lgEnv) {
	for i, l := range lhs {
		id, ok := l.(*ast.Ident)
		if !ok || id.Name == "_" || i >= len(vals) || vals[i] == nil {
			continue
		}
		switch vals[i].kind {
		case "ref", "node", "file", "closure", "nil", "int", "bool", "slice", "refset", "nodeset", "gmap":
			env.set(id.Name, vals[i], define)
		case "other":
			if define && vals[i].text != "" && strings.HasPrefix(vals[i].text, "msg.") {
				env.set(id.Name, vals[i], true)
			} else if !define {
				if old := env.get(id.Name); old != nil && old.kind != "closure" {
					env.set(id.Name, &lgVal{kind: "other", text: id.Name}, false)
				}
			}
		default:
			if !define {
				if old := env.get(id.Name); old != nil && old.kind != "closure" {
					// the variable no longer has its symbolic value
					env.set(id.Name, &lgVal{kind: "other", text: id.Name}, false)
				}
			}
		}
	}
}

func (in *lgInterp) assign(s *ast.AssignStmt, env *lgEnv, fr *lgFrame) error {
	var vals []*lgVal
	for _, r := range s.Rhs {
		v, err := in.eval(r, env, fr)
		if err != nil {
			return err
		}
		vals = append(vals, v)
	}
	if s.Tok != token.DEFINE {
		for _, l := range s.Lhs {
			if err := in.lhs(l, env, fr); err != nil {
				return err
			}
		}
	}
	if len(s.Rhs) == 1 && len(s.Lhs) > 1 {
		v := vals[0]
		vals = make([]*lgVal, len(s.Lhs))
		switch {
		case v.kind == "tuple":
			copy(vals, v.tuple)
		case v.kind == "walked": // qids, file, ... := X.Walk(names)
			vals[1] = &lgVal{kind: "file", file: v.file}
		case v.kind == "created": // file, qid, ... := X.Create(name, ...)
			vals[0] = &lgVal{kind: "file", file: v.file}
		case v.kind == "gmap" || v.kind == "ref": // x, ok := m[k]
			vals[0] = v
		case v.kind == "refset" || v.kind == "node": // m, ok := p.childRefs[name]
			vals[0] = v
		default:
			if ce, ok := s.Rhs[0].(*ast.CallExpr); ok {
				if se, ok := ce.Fun.(*ast.SelectorExpr); ok && se.Sel.Name == "Attach" {
					if id, ok := s.Lhs[0].(*ast.Ident); ok {
						vals[0] = &lgVal{kind: "file", file: &lgFile{kind: "attach", name: id.Name}}
					}
				}
			}
		}
	}
	// r := &fidRef{file: sf, ...}: from here on sf is r's File
	if len(s.Lhs) == 1 && len(s.Rhs) == 1 {
		if id, ok := s.Lhs[0].(*ast.Ident); ok {
			x := s.Rhs[0]
			if u, ok := x.(*ast.UnaryExpr); ok && u.Op == token.AND {
				x = u.X
			}
			if cl, ok := x.(*ast.CompositeLit); ok && types.ExprString(cl.Type) == "fidRef" {
				for _, el := range cl.Elts {
					if kv, ok := el.(*ast.KeyValueExpr); ok && types.ExprString(kv.Key) == "file" {
						if fid, ok := kv.Value.(*ast.Ident); ok {
							env.set(fid.Name, &lgVal{kind: "file", file: &lgFile{kind: "of", ref: &lgRef{kind: "name", name: id.Name}}}, false)
						}
					}
				}
				vals[0] = &lgVal{kind: "ref", ref: &lgRef{kind: "name", name: id.Name}}
			}
		}
	}
	in.bind(s.Lhs, vals, s.Tok == token.DEFINE, env)
	return nil
}

func (in *lgInterp) cond(x ast.Expr, env *lgEnv, fr *lgFrame) (*lgVal, error) {
	if x == nil {
		return &lgVal{kind: "other"}, nil
	}
	return in.eval(x, env, fr)
}

func (in *lgInterp) stmt(s ast.Stmt, env *lgEnv, fr *lgFrame) (int, error) {
	switch st := s.(type) {
	case nil, *ast.EmptyStmt:
		return lgNone, nil
	case *ast.ExprStmt:
		if ce, ok := st.X.(*ast.CallExpr); ok {
			if id, ok := ce.Fun.(*ast.Ident); ok && id.Name == "panic" {
				if _, err := in.evalArgs(ce.Args, env, fr); err != nil {
					return lgNone, err
				}
				return lgReturn, nil
			}
		}
		_, err := in.eval(st.X, env, fr)
		return lgNone, err
	case *ast.AssignStmt:
		return lgNone, in.assign(st, env, fr)
	case *ast.IncDecStmt:
		return lgNone, in.lhs(st.X, env, fr)
	case *ast.SendStmt:
		if _, err := in.eval(st.Chan, env, fr); err != nil {
			return lgNone, err
		}
		_, err := in.eval(st.Value, env, fr)
		return lgNone, err
	case *ast.DeclStmt:
		gd, ok := st.Decl.(*ast.GenDecl)
		if !ok {
			return lgNone, in.refuse(s.Pos(), "declaration")
		}
		for _, sp := range gd.Specs {
			if vs, ok := sp.(*ast.ValueSpec); ok {
				var vals []*lgVal
				for _, v := range vs.Values {
					x, err := in.eval(v, env, fr)
					if err != nil {
						return lgNone, err
					}
					vals = append(vals, x)
				}
				for i, n := range vs.Names {
					if i < len(vals) {
						in.bind([]ast.Expr{n}, []*lgVal{vals[i]}, true, env)
					} else if fr.fileIdent[n.Name] {
						env.vars[n.Name] = &lgVal{kind: "file", file: &lgFile{kind: "fresh", name: n.Name}, text: n.Name}
					} else if n.Name != "_" {
						// declared here: later assignments update this scope
						t := n.Name
						if fr.scope != "" {
							t += "@" + fr.scope
						}
						env.vars[n.Name] = &lgVal{kind: "other", text: t}
					}
				}
			}
		}
		return lgNone, nil
	case *ast.ReturnStmt:
		var rs []*lgVal
		for _, r := range st.Results {
			v, err := in.eval(r, env, fr)
			if err != nil {
				return lgNone, err
			}
			rs = append(rs, v)
		}
		if len(rs) > 0 {
			fr.rets = append(fr.rets, rs)
		}
		return lgReturn, nil
	case *ast.BlockStmt:
		return in.block(st.List, &lgEnv{vars: map[string]*lgVal{}, up: env}, fr)
	case *ast.LabeledStmt:
		return in.stmt(st.Stmt, env, fr)
	case *ast.BranchStmt:
		if st.Tok == token.FALLTHROUGH {
			return lgNone, nil
		}
		if st.Tok == token.GOTO {
			return lgNone, in.refuse(s.Pos(), "goto")
		}
		if len(in.breakHeld) == 0 || !lgHeldEq(in.breakHeld[len(in.breakHeld)-1], in.held) {
			return lgNone, in.refuse(s.Pos(), "break/continue with a different set of locks held than at loop/switch entry")
		}
		return lgBreak, nil
	case *ast.DeferStmt:
		ce := st.Call
		if fl, ok := ce.Fun.(*ast.FuncLit); ok {
			args, err := in.evalArgs(ce.Args, env, fr)
			if err != nil {
				return lgNone, err
			}
			fr.defers = append(fr.defers, func() error {
				_, err := in.callClosure(&lgClosure{lit: fl, env: env, fr: fr}, args, ce.Pos())
				return err
			})
			return lgNone, nil
		}
		if se, ok := ce.Fun.(*ast.SelectorExpr); ok && (se.Sel.Name == "Unlock" || se.Sel.Name == "RUnlock") {
			if l, isLock, err := in.lockOf(se.X, env, fr); err == nil && isLock {
				for i := len(in.held) - 1; i >= 0; i-- {
					if in.held[i].l.coq() == l.coq() && in.held[i].w == (se.Sel.Name == "Unlock") && !in.held[i].d {
						in.held[i].d = true
						break
					}
				}
			}
		}
		fr.defers = append(fr.defers, func() error { _, err := in.eval(ce, env, fr); return err })
		return lgNone, nil
	case *ast.GoStmt:
		// a new thread: starts holding nothing
		saveH, saveS, saveB, saveP := in.held, in.stack, in.breakHeld, in.path
		in.held, in.breakHeld, in.path = nil, nil, nil
		_, err := in.eval(st.Call, env, fr)
		if err == nil && len(in.held) != 0 {
			err = in.refuse(s.Pos(), "goroutine ends holding locks")
		}
		in.held, in.stack, in.breakHeld, in.path = saveH, saveS, saveB, saveP
		return lgNone, err
	case *ast.IfStmt:
		env2 := &lgEnv{vars: map[string]*lgVal{}, up: env}
		if st.Init != nil {
			if _, err := in.stmt(st.Init, env2, fr); err != nil {
				return lgNone, err
			}
		}
		c, err := in.cond(st.Cond, env2, fr)
		if err != nil {
			return lgNone, err
		}
		thenF := func() (int, error) {
			if c.kind == "nodecmp" && !c.b {
				in.facts = append(in.facts[:len(in.facts):len(in.facts)], [2]*lgNode{c.node, c.ref.node})
			}
			if c.kind == "nodecmp" && c.b {
				in.alias = append(in.alias[:len(in.alias):len(in.alias)], [2]*lgNode{c.ref.node, c.node})
			}
			return in.block(st.Body.List, &lgEnv{vars: map[string]*lgVal{}, up: env2}, fr)
		}
		elseF := func() (int, error) {
			if c.kind == "nodecmp" && c.b {
				in.facts = append(in.facts[:len(in.facts):len(in.facts)], [2]*lgNode{c.node, c.ref.node})
			}
			if c.kind == "nodecmp" && !c.b {
				in.alias = append(in.alias[:len(in.alias):len(in.alias)], [2]*lgNode{c.ref.node, c.node})
			}
			if st.Else == nil {
				return lgNone, nil
			}
			return in.stmt(st.Else, env2, fr)
		}
		if c.kind == "bool" {
			if c.b {
				return thenF()
			}
			return elseF()
		}
		return in.branches(s.Pos(), []func() (int, error){thenF, elseF}, false)
	case *ast.ForStmt:
		env2 := &lgEnv{vars: map[string]*lgVal{}, up: env}
		if st.Init != nil {
			if _, err := in.stmt(st.Init, env2, fr); err != nil {
				return lgNone, err
			}
			for k, v := range env2.vars {
				if v.kind == "int" || v.kind == "bool" {
					env2.vars[k] = &lgVal{kind: "other"} // the loop variable changes
				}
			}
		}
		if _, err := in.cond(st.Cond, env2, fr); err != nil {
			return lgNone, err
		}
		// the body is interpreted twice: the second pass sees what the first one assigned (doWalk: the walk
		// position is the start fid in the first step and the fidRef just built in every later one)
		return in.loop(s.Pos(), func() (int, error) {
			for pass := 0; pass < 2; pass++ {
				t, err := in.block(st.Body.List, &lgEnv{vars: map[string]*lgVal{}, up: env2}, fr)
				if err != nil || t != lgNone {
					return t, err
				}
				if t, err := in.stmt(st.Post, env2, fr); err != nil || t != lgNone {
					return t, err
				}
			}
			return lgNone, nil
		}, st.Cond == nil)
	case *ast.RangeStmt:
		v, err := in.eval(st.X, env, fr)
		if err != nil {
			return lgNone, err
		}
		env2 := &lgEnv{vars: map[string]*lgVal{}, up: env}
		in.mapUse(st.For, v, false)
		var kv, vv *lgVal
		switch v.kind {
		case "refset":
			// range over childRefs: name -> set;  range over a set / list of member refs: ref
			if se, ok := st.X.(*ast.SelectorExpr); ok && se.Sel.Name == "childRefs" {
				vv = v
			} else {
				m := &lgVal{kind: "ref", ref: &lgRef{kind: "member", node: v.node}}
				kv, vv = m, m
				if st.Value != nil { // for _, ref := range held
					kv = nil
				}
			}
		case "nodeset":
			vv = &lgVal{kind: "node", node: &lgNode{kind: "child", sub: v.node, name: "*"}}
		}
		in.bind([]ast.Expr{st.Key, st.Value}, []*lgVal{kv, vv}, true, env2)
		return in.loop(s.Pos(), func() (int, error) {
			return in.block(st.Body.List, &lgEnv{vars: map[string]*lgVal{}, up: env2}, fr)
		}, false)
	case *ast.SwitchStmt:
		env2 := &lgEnv{vars: map[string]*lgVal{}, up: env}
		if st.Init != nil {
			if _, err := in.stmt(st.Init, env2, fr); err != nil {
				return lgNone, err
			}
		}
		if _, err := in.cond(st.Tag, env2, fr); err != nil {
			return lgNone, err
		}
		return in.cases(s.Pos(), st.Body.List, st.Tag == nil, env2, fr)
	case *ast.TypeSwitchStmt:
		env2 := &lgEnv{vars: map[string]*lgVal{}, up: env}
		if st.Init != nil {
			if _, err := in.stmt(st.Init, env2, fr); err != nil {
				return lgNone, err
			}
		}
		switch a := st.Assign.(type) {
		case *ast.ExprStmt:
			if _, err := in.eval(a.X, env2, fr); err != nil {
				return lgNone, err
			}
		case *ast.AssignStmt:
			if _, err := in.eval(a.Rhs[0], env2, fr); err != nil {
				return lgNone, err
			}
		}
		return in.cases(s.Pos(), st.Body.List, false, env2, fr)
	case *ast.SelectStmt:
		if !in.lenient {
			// a select with a default clause never blocks; one without is a blocking wait
			hasDefault := false
			for _, c := range st.Body.List {
				if c.(*ast.CommClause).Comm == nil {
					hasDefault = true
				}
			}
			if !hasDefault {
				in.site(s.Pos(), "(KWait \"select\")")
			}
		}
		in.noWait++
		defer func() { in.noWait-- }()
		in.breakHeld = append(in.breakHeld, append([]lgHeld(nil), in.held...))
		defer func() { in.breakHeld = in.breakHeld[:len(in.breakHeld)-1] }()
		var alts []func() (int, error)
		for _, c := range st.Body.List {
			cc := c.(*ast.CommClause)
			alts = append(alts, func() (int, error) {
				env3 := &lgEnv{vars: map[string]*lgVal{}, up: env}
				if cc.Comm != nil {
					if _, err := in.stmt(cc.Comm, env3, fr); err != nil {
						return lgNone, err
					}
				}
				t, err := in.block(cc.Body, env3, fr)
				if t == lgBreak {
					t = lgNone
				}
				return t, err
			})
		}
		return in.branches(s.Pos(), alts, false)
	}
	return lgNone, in.refuse(s.Pos(), "statement %T", s)
}

func (in *lgInterp) loop(p token.Pos, body func() (int, error), forever bool) (int, error) {
	in.breakHeld = append(in.breakHeld, append([]lgHeld(nil), in.held...))
	defer func() { in.breakHeld = in.breakHeld[:len(in.breakHeld)-1] }()
	t, err := in.branches(p, []func() (int, error){func() (int, error) {
		t, err := body()
		if t == lgBreak {
			t = lgNone
		}
		return t, err
	}}, true)
	if err != nil {
		return lgNone, err
	}
	_ = forever
	return t, nil
}

func (in *lgInterp) cases(p token.Pos, list []ast.Stmt, tagless bool, env *lgEnv, fr *lgFrame) (int, error) {
	in.breakHeld = append(in.breakHeld, append([]lgHeld(nil), in.held...))
	defer func() { in.breakHeld = in.breakHeld[:len(in.breakHeld)-1] }()
	hasDefault := false
	var alts []func() (int, error)
	for i, c := range list {
		cc := c.(*ast.CaseClause)
		if cc.List == nil {
			hasDefault = true
		}
		known, val := false, false
		for _, e := range cc.List {
			v, err := in.eval(e, env, fr)
			if err != nil {
				return lgNone, err
			}
			if tagless && len(cc.List) == 1 && v.kind == "bool" {
				known, val = true, v.b
			}
		}
		if known && !val {
			continue
		}
		i := i
		alt := func() (int, error) {
			// a body ending in fallthrough continues with the next clause
			for j := i; j < len(list); j++ {
				body := list[j].(*ast.CaseClause).Body
				t, err := in.block(body, &lgEnv{vars: map[string]*lgVal{}, up: env}, fr)
				if err != nil {
					return lgNone, err
				}
				if t == lgBreak {
					return lgNone, nil
				}
				if t != lgNone {
					return t, nil
				}
				if len(body) == 0 {
					return lgNone, nil
				}
				if bs, ok := body[len(body)-1].(*ast.BranchStmt); !ok || bs.Tok != token.FALLTHROUGH {
					return lgNone, nil
				}
			}
			return lgNone, nil
		}
		if known && val {
			return in.branches(p, []func() (int, error){alt}, false)
		}
		alts = append(alts, alt)
	}
	return in.branches(p, alts, !hasDefault)
}
