package main

// ErrnoGen: linux/errors.go ExtractErrno and linux/errors_linux.go sysErrno TRANSLATED into Gallina over the
// error-tree model of Client/Errs.v (coq/gen/ErrnoGen.v).  errors.As on a linux.Errno / syscall.Errno target and
// errors.Is on an os.Err* sentinel are the primitives of Errs.v (find is_linux / find is_sys / has); the ORDER of
// the tests, which value each returns, the sentinel table with its errnos and the default are what the source
// says.  Client/ErrnoTie.v proves the generated function equal to the hand model for every error tree.

import (
	"fmt"
	"go/ast"
	"go/token"
	"strings"
)

func init() { register(Generator{Name: "ErrnoGen", Run: runErrnoGen}) }

type egen struct {
	r     *Repo
	err   error
	param string
	vars  map[string]string // local -> "linux" | "sys" (declared `var x Errno` / `var x syscall.Errno`)
}

func (g *egen) refuse(p token.Pos, f string, a ...interface{}) string {
	if g.err == nil {
		g.err = g.r.Refuse(p, f, a...)
	}
	return "?"
}

var errnoSentinels = map[string]string{"os.ErrNotExist": "OsNotExist", "os.ErrExist": "OsExist", "os.ErrPermission": "OsPermission", "os.ErrInvalid": "OsInvalid"}

func runErrnoGen(r *Repo) (string, error) {
	files, err := r.Files("linux")
	if err != nil {
		return "", err
	}
	var extract, sys *ast.FuncDecl
	for n, f := range files {
		for _, d := range f.Decls {
			fd, ok := d.(*ast.FuncDecl)
			if !ok || fd.Recv != nil {
				continue
			}
			if fd.Name.Name == "ExtractErrno" {
				extract = fd
			}
			if fd.Name.Name == "sysErrno" && n == "errors_linux.go" { // the variant built on linux (//go:build linux)
				tagged := false
				for _, cg := range f.Comments {
					if strings.Contains(cg.Text(), "go:build linux") || strings.HasPrefix(strings.TrimSpace(cg.List[0].Text), "//go:build linux") {
						tagged = true
					}
				}
				if !tagged {
					return "", r.Refuse(fd.Pos(), "errors_linux.go is not tagged //go:build linux")
				}
				sys = fd
			}
		}
	}
	if extract == nil || sys == nil {
		return "", fmt.Errorf("linux: ExtractErrno / sysErrno (errors_linux.go) not found")
	}
	var b strings.Builder
	b.WriteString("From Coq Require Import NArith List Bool.\nFrom P9V Require Import gen.ConstGen Client.Errs.\nImport ListNotations.\nOpen Scope N_scope.\n\n")
	for _, fd := range []*ast.FuncDecl{sys, extract} {
		if len(fd.Type.Params.List) != 1 || len(fd.Type.Params.List[0].Names) != 1 {
			return "", r.Refuse(fd.Pos(), "signature of %s", fd.Name.Name)
		}
		g := &egen{r: r, param: fd.Type.Params.List[0].Names[0].Name, vars: map[string]string{}}
		b.WriteString("(* " + r.Pos(fd.Pos()) + " *)\n")
		b.WriteString("Definition gen_" + fd.Name.Name + " (" + g.param + " : errv) : N :=\n")
		b.WriteString(g.block(fd.Body.List, "  "))
		b.WriteString(".\n\n")
		if g.err != nil {
			return "", g.err
		}
	}
	return b.String(), nil
}

func (g *egen) value(e ast.Expr) string {
	switch x := e.(type) {
	case *ast.Ident:
		if _, ok := g.vars[x.Name]; ok {
			return x.Name
		}
		if x.Name == strings.ToUpper(x.Name) && strings.HasPrefix(x.Name, "E") {
			return "linux_" + x.Name
		}
		return x.Name
	case *ast.BasicLit:
		if x.Kind == token.INT {
			return x.Value
		}
	case *ast.CallExpr: // Errno(x)
		if exprText(x.Fun) == "Errno" && len(x.Args) == 1 {
			return g.value(x.Args[0])
		}
	}
	return g.refuse(e.Pos(), "value %s", exprText(e))
}

func singleReturn(b *ast.BlockStmt) *ast.ReturnStmt {
	if len(b.List) != 1 {
		return nil
	}
	r, _ := b.List[0].(*ast.ReturnStmt)
	if r == nil || len(r.Results) != 1 {
		return nil
	}
	return r
}

func (g *egen) block(stmts []ast.Stmt, ind string) string {
	if len(stmts) == 0 {
		return g.refuse(token.NoPos, "function falls off its end")
	}
	rest := func() string { return g.block(stmts[1:], ind) }
	switch s := stmts[0].(type) {
	case *ast.ReturnStmt:
		if len(stmts) != 1 || len(s.Results) != 1 {
			return g.refuse(s.Pos(), "return")
		}
		return ind + g.value(s.Results[0])
	case *ast.DeclStmt: // var x Errno | var x syscall.Errno
		gd, ok := s.Decl.(*ast.GenDecl)
		if !ok || gd.Tok != token.VAR || len(gd.Specs) != 1 {
			return g.refuse(s.Pos(), "declaration")
		}
		vs := gd.Specs[0].(*ast.ValueSpec)
		if len(vs.Names) != 1 || len(vs.Values) != 0 {
			return g.refuse(s.Pos(), "declaration")
		}
		switch exprText(vs.Type) {
		case "Errno":
			g.vars[vs.Names[0].Name] = "linux"
		case "syscall.Errno":
			g.vars[vs.Names[0].Name] = "sys"
		default:
			return g.refuse(s.Pos(), "variable of type %s", exprText(vs.Type))
		}
		return rest()
	case *ast.IfStmt:
		if s.Else != nil {
			return g.refuse(s.Pos(), "if with else")
		}
		ret := singleReturn(s.Body)
		if ret == nil {
			return g.refuse(s.Pos(), "if body is not a single return")
		}
		if s.Init != nil { // if e := sysErrno(err); e != 0 { return e }
			as, ok := s.Init.(*ast.AssignStmt)
			if !ok || as.Tok != token.DEFINE || len(as.Lhs) != 1 || len(as.Rhs) != 1 {
				return g.refuse(s.Pos(), "if init")
			}
			v := as.Lhs[0].(*ast.Ident).Name
			call, ok := as.Rhs[0].(*ast.CallExpr)
			if !ok || exprText(call.Fun) != "sysErrno" || len(call.Args) != 1 || exprText(call.Args[0]) != g.param {
				return g.refuse(s.Pos(), "if init %s", exprText(as.Rhs[0]))
			}
			if exprText(s.Cond) != v+" != 0" {
				return g.refuse(s.Pos(), "condition %s", exprText(s.Cond))
			}
			g.vars[v] = "n"
			return ind + "let " + v + " := gen_sysErrno " + g.param + " in\n" + ind + "if negb (" + v + " =? 0) then " + g.value(ret.Results[0]) + " else\n" + rest()
		}
		call, ok := s.Cond.(*ast.CallExpr)
		if !ok || exprText(call.Fun) != "errors.As" || len(call.Args) != 2 || exprText(call.Args[0]) != g.param {
			return g.refuse(s.Pos(), "condition %s", exprText(s.Cond))
		}
		ue, ok := call.Args[1].(*ast.UnaryExpr)
		if !ok || ue.Op != token.AND {
			return g.refuse(s.Pos(), "errors.As target")
		}
		v := exprText(ue.X)
		prim := map[string]string{"linux": "is_linux", "sys": "is_sys"}[g.vars[v]]
		if prim == "" {
			return g.refuse(s.Pos(), "errors.As target %s of unknown type", v)
		}
		return ind + "match find " + prim + " " + g.param + " with\n" + ind + "| Some " + v + " => " + g.value(ret.Results[0]) + "\n" + ind + "| None =>\n" + g.block(stmts[1:], ind+"  ") + "\n" + ind + "end"
	case *ast.RangeStmt: // for _, pair := range []struct{error; Errno}{{os.ErrX, EY}, ...} { if errors.Is(err, pair.error) { return pair.Errno } }
		cl, ok := s.X.(*ast.CompositeLit)
		if !ok || s.Value == nil {
			return g.refuse(s.Pos(), "range")
		}
		pv := exprText(s.Value)
		if len(s.Body.List) != 1 {
			return g.refuse(s.Pos(), "range body")
		}
		ifs, ok := s.Body.List[0].(*ast.IfStmt)
		if !ok || ifs.Init != nil || ifs.Else != nil || exprText(ifs.Cond) != "errors.Is("+g.param+", "+pv+".error)" {
			return g.refuse(s.Pos(), "range body")
		}
		ret := singleReturn(ifs.Body)
		if ret == nil || exprText(ret.Results[0]) != pv+".Errno" {
			return g.refuse(s.Pos(), "range body return")
		}
		var out strings.Builder
		for _, el := range cl.Elts {
			pair, ok := el.(*ast.CompositeLit)
			if !ok || len(pair.Elts) != 2 {
				return g.refuse(el.Pos(), "pair")
			}
			sen, ok := errnoSentinels[exprText(pair.Elts[0])]
			if !ok {
				return g.refuse(el.Pos(), "sentinel %s", exprText(pair.Elts[0]))
			}
			out.WriteString(ind + "if has " + sen + " " + g.param + " then " + g.value(pair.Elts[1]) + " else\n")
		}
		return out.String() + rest()
	}
	return g.refuse(stmts[0].Pos(), "statement %T", stmts[0])
}
