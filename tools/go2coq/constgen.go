package main

// ConstGen: every integer and string constant (and simple package-level var
// initialiser) of the packages the models mention, evaluated from the syntax:
// literals, iota, references to other constants, + - * / % << >> & | ^ &^,
// conversions T(x), parentheses.  Also the literal thresholds of the
// versionSupports* predicates.

import (
	"fmt"
	"go/ast"
	"go/token"
	"math/big"
	"sort"
	"strconv"
	"strings"
)

type constEnv struct {
	r      *Repo
	ints   map[string]*big.Int
	strs   map[string]string
	exprs  map[string]ast.Expr
	iotas  map[string]int
	active map[string]bool
}

func (e *constEnv) eval(x ast.Expr, iota int) (*big.Int, string, bool) {
	switch v := x.(type) {
	case *ast.BasicLit:
		switch v.Kind {
		case token.INT:
			n, ok := new(big.Int).SetString(strings.ReplaceAll(v.Value, "_", ""), 0)
			return n, "", ok
		case token.STRING:
			s, err := strconv.Unquote(v.Value)
			return nil, s, err == nil
		case token.CHAR:
			s, err := strconv.Unquote(v.Value)
			if err != nil || len(s) == 0 {
				return nil, "", false
			}
			return big.NewInt(int64([]rune(s)[0])), "", true
		}
		return nil, "", false
	case *ast.ParenExpr:
		return e.eval(v.X, iota)
	case *ast.Ident:
		if v.Name == "iota" {
			return big.NewInt(int64(iota)), "", true
		}
		return e.lookup(v.Name)
	case *ast.SelectorExpr:
		// math.MaxUint8 and friends
		if id, ok := v.X.(*ast.Ident); ok && id.Name == "math" {
			m := map[string]string{"MaxUint8": "255", "MaxUint16": "65535", "MaxUint32": "4294967295", "MaxUint64": "18446744073709551615", "MaxInt32": "2147483647", "MaxInt64": "9223372036854775807"}
			if s, ok := m[v.Sel.Name]; ok {
				n, _ := new(big.Int).SetString(s, 10)
				return n, "", true
			}
		}
		return nil, "", false
	case *ast.CallExpr:
		// conversion T(x) with one argument and T an identifier (uint32, FileMode, msgType, ...)
		if len(v.Args) == 1 {
			if _, ok := v.Fun.(*ast.Ident); ok {
				n, s, ok2 := e.eval(v.Args[0], iota)
				if ok2 && n != nil {
					if id := v.Fun.(*ast.Ident); strings.HasPrefix(id.Name, "uint") {
						bits := map[string]uint{"uint8": 8, "uint16": 16, "uint32": 32, "uint64": 64, "uint": 64}[id.Name]
						if bits != 0 {
							mod := new(big.Int).Lsh(big.NewInt(1), bits)
							n = new(big.Int).Mod(n, mod)
						}
					}
				}
				return n, s, ok2
			}
		}
		return nil, "", false
	case *ast.UnaryExpr:
		n, _, ok := e.eval(v.X, iota)
		if !ok || n == nil {
			return nil, "", false
		}
		switch v.Op {
		case token.SUB:
			return new(big.Int).Neg(n), "", true
		case token.ADD:
			return n, "", true
		case token.XOR:
			return new(big.Int).Not(n), "", true
		}
		return nil, "", false
	case *ast.BinaryExpr:
		a, _, ok1 := e.eval(v.X, iota)
		b, _, ok2 := e.eval(v.Y, iota)
		if !ok1 || !ok2 || a == nil || b == nil {
			return nil, "", false
		}
		z := new(big.Int)
		switch v.Op {
		case token.ADD:
			return z.Add(a, b), "", true
		case token.SUB:
			return z.Sub(a, b), "", true
		case token.MUL:
			return z.Mul(a, b), "", true
		case token.QUO:
			if b.Sign() == 0 {
				return nil, "", false
			}
			return z.Quo(a, b), "", true
		case token.REM:
			if b.Sign() == 0 {
				return nil, "", false
			}
			return z.Rem(a, b), "", true
		case token.SHL:
			return z.Lsh(a, uint(b.Uint64())), "", true
		case token.SHR:
			return z.Rsh(a, uint(b.Uint64())), "", true
		case token.AND:
			return z.And(a, b), "", true
		case token.OR:
			return z.Or(a, b), "", true
		case token.XOR:
			return z.Xor(a, b), "", true
		case token.AND_NOT:
			return z.AndNot(a, b), "", true
		}
	}
	return nil, "", false
}

func (e *constEnv) lookup(name string) (*big.Int, string, bool) {
	if n, ok := e.ints[name]; ok {
		return n, "", true
	}
	if s, ok := e.strs[name]; ok {
		return nil, s, true
	}
	x, ok := e.exprs[name]
	if !ok || e.active[name] {
		return nil, "", false
	}
	e.active[name] = true
	n, s, ok := e.eval(x, e.iotas[name])
	delete(e.active, name)
	if !ok {
		return nil, "", false
	}
	if n != nil {
		e.ints[name] = n
	} else {
		e.strs[name] = s
	}
	return n, s, true
}

func collectConsts(r *Repo, dir string) (*constEnv, []string, error) {
	files, err := r.Files(dir)
	if err != nil {
		return nil, nil, err
	}
	e := &constEnv{r: r, ints: map[string]*big.Int{}, strs: map[string]string{}, exprs: map[string]ast.Expr{}, iotas: map[string]int{}, active: map[string]bool{}}
	var order []string
	for _, fn := range SortedNames(files) {
		for _, d := range files[fn].Decls {
			gd, ok := d.(*ast.GenDecl)
			if !ok || (gd.Tok != token.CONST && gd.Tok != token.VAR) {
				continue
			}
			var last []ast.Expr
			for i, sp := range gd.Specs {
				vs := sp.(*ast.ValueSpec)
				vals := vs.Values
				if gd.Tok == token.CONST {
					if len(vals) == 0 {
						vals = last
					} else {
						last = vals
					}
				}
				for j, n := range vs.Names {
					if n.Name == "_" || j >= len(vals) {
						continue
					}
					e.exprs[n.Name] = vals[j]
					e.iotas[n.Name] = i
					order = append(order, n.Name)
				}
			}
		}
	}
	return e, order, nil
}

func coqIdent(prefix, name string) string {
	return prefix + "_" + name
}

func genConsts(r *Repo) (string, error) {
	var b strings.Builder
	b.WriteString("From Coq Require Import NArith String List.\nImport ListNotations.\nOpen Scope N_scope.\nOpen Scope string_scope.\n\n")
	type pk struct{ dir, prefix string }
	for _, p := range []pk{{"p9", "p9"}, {"fsimpl/localfs", "localfs"}, {"linux", "linux"}} {
		e, order, err := collectConsts(r, p.dir)
		if err != nil {
			return "", err
		}
		fmt.Fprintf(&b, "(* ---- package %s ---- *)\n", p.dir)
		seen := map[string]bool{}
		for _, name := range order {
			if seen[name] {
				continue
			}
			seen[name] = true
			n, s, ok := e.lookup(name)
			if !ok {
				continue // not a compile-time integer/string (maps, funcs, structs ...)
			}
			if n != nil {
				if n.Sign() < 0 {
					fmt.Fprintf(&b, "Definition %s : Z := (%s)%%Z.\n", coqIdent(p.prefix, name), n.String())
				} else {
					fmt.Fprintf(&b, "Definition %s : N := %s.\n", coqIdent(p.prefix, name), n.String())
				}
			} else {
				printable := true
				for _, c := range []byte(s) {
					if c < 32 || c > 126 {
						printable = false
					}
				}
				if printable {
					fmt.Fprintf(&b, "Definition %s : string := %s.\n", coqIdent(p.prefix, name), CoqString(s))
				}
			}
		}
		b.WriteString("\n")
	}
	// thresholds of the version predicates:  func versionSupportsX(v uint32) bool { return v >= K }
	fds, err := r.FuncDecls("p9")
	if err != nil {
		return "", err
	}
	var names []string
	for k := range fds {
		if strings.HasPrefix(strings.ToLower(k), "versionsupports") {
			names = append(names, k)
		}
	}
	sort.Strings(names)
	b.WriteString("(* version predicates: v >= threshold *)\n")
	for _, k := range names {
		fd := fds[k]
		if fd.Body == nil || len(fd.Body.List) != 1 {
			return "", r.Refuse(fd.Pos(), "%s: expected a single return statement", k)
		}
		ret, ok := fd.Body.List[0].(*ast.ReturnStmt)
		if !ok || len(ret.Results) != 1 {
			return "", r.Refuse(fd.Pos(), "%s: expected return v >= K", k)
		}
		be, ok := ret.Results[0].(*ast.BinaryExpr)
		if !ok || be.Op != token.GEQ {
			return "", r.Refuse(ret.Pos(), "%s: expected v >= K", k)
		}
		lit, ok := be.Y.(*ast.BasicLit)
		if !ok || lit.Kind != token.INT {
			return "", r.Refuse(be.Y.Pos(), "%s: threshold is not an integer literal", k)
		}
		fmt.Fprintf(&b, "Definition p9_threshold_%s : N := %s.\n", k, lit.Value)
	}
	return b.String(), nil
}

func init() { register(Generator{Name: "ConstGen", Run: genConsts}) }
