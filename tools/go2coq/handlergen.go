package main

// HandlerGen: an ordered event trace of every request handler of p9/handlers.go
// (handle/do methods, clunkHandleXattr, doWalk, walkOne, checkSafeName, CanOpen)
// and of the server.go functions the handlers rest on (connState.handle with its
// recover, LookupFID/InsertFID/DeleteFID, fidRef.DecRef), read from the syntax:
//
//	name:<expr>            checkSafeName(<expr>)
//	lookup:<expr>          cs.LookupFID(<expr>)
//	defer:<callee>         deferred call (DecRef, Unlock, ...)
//	wrap:<fn>:<ref> ... endwrap     safelyRead / safelyWrite / safelyGlobal closure
//	if:<cond> ... [else ...] endif  every condition, verbatim
//	switch:<tag> case:<v> ... default ... endswitch
//	call:<recv>.<Method>(<args>)    backend File / Attacher call with its arguments
//	insert:<fid>:<ref>  delete:<fid>   InsertFID / DeleteFID
//	incref:<ref> decref:<ref>       explicit reference counting
//	tree:<call>            path-tree helper (pathNodeFor, addChild, nameFor, markChildDeleted, renameChildTo, ...)
//	lock:<recv>.<op>       explicit mutex operation
//	delegate:<call>        doWalk / walkOne / t.do / clunkHandleXattr
//	set:<lhs>              assignment to a field (ref.opened, ref.pendingXattr, ...)
//	return:<what>          errno name, nil, err, &rmessage, or the expression
//	panic / recover / pool-get / for:<...> endfor
//
// Any call expression or statement form outside this vocabulary is REFUSED.
// Also: the string-typed fields of every T-message that has a handler.

import (
	"bytes"
	"fmt"
	"go/ast"
	"go/printer"
	"go/token"
	"sort"
	"strings"
)

func init() { register(Generator{Name: "HandlerGen", Run: runHandlerGen}) }

var hgBackendMethods = map[string]bool{
	"Walk": true, "WalkGetAttr": true, "StatFS": true, "GetAttr": true, "SetAttr": true, "Close": true, "Open": true,
	"ReadAt": true, "WriteAt": true, "SetXattr": true, "GetXattr": true, "ListXattrs": true, "RemoveXattr": true,
	"FSync": true, "Lock": true, "Create": true, "Mkdir": true, "Symlink": true, "Link": true, "Mknod": true,
	"Rename": true, "RenameAt": true, "UnlinkAt": true, "Readdir": true, "Readlink": true, "Renamed": true, "Attach": true,
}

// calls without an effect the summaries track (conversions, predicates, constructors of values)
var hgPure = map[string]bool{
	"newErr": true, "errors.Is": true, "errors.Join": true, "errors.As": true, "len": true, "int": true, "int64": true, "uint64": true, "uint32": true,
	"append": true, "copy": true, "strings.Split": true, "strings.Join": true, "strings.Contains": true, "path.IsAbs": true,
	"fmt.Sprintf": true, "fmt.Errorf": true, "XattrFlags": true, "string": true, "make": true, "debug.Stack": true,
	"CanOpen": true, "linux.ExtractErrno": true, "[]byte": true,
}
var hgPureMethods = map[string]bool{
	"isDeleted": true, "hasParent": true, "IsDir": true, "IsSymlink": true, "IsRegular": true, "IsNamedPipe": true,
	"IsBlockDevice": true, "IsCharacterDevice": true, "Mode": true, "FileType": true, "maxReplyPayload": true, "Printf": true,
}
var hgTreeMethods = map[string]bool{
	"pathNodeFor": true, "addChild": true, "addChildLocked": true, "nameFor": true, "markChildDeleted": true,
	"renameChildTo": true, "removeChild": true, "removeWithName": true, "addPathNodeFor": true,
}

type hgen struct {
	r      *Repo
	events []string
	err    error
	// the function being summarised; alpha: print locals positionally (_v0, _v1, ...) so that a
	// rename of a local variable, parameter or receiver does not change the table
	fd     *ast.FuncDecl
	alpha  bool
	cs     map[string]bool // identifiers of type *connState (receiver / parameters)
	files  map[string]bool // identifiers of type File (parameters, var declarations, the Attach() result)
	locals map[string]string
}

// hgLocalTypes finds the *connState- and File-typed identifiers of fd from its syntax.
func hgLocalTypes(fd *ast.FuncDecl) (cs, files map[string]bool) {
	cs, files = map[string]bool{}, map[string]bool{}
	typ := func(t ast.Expr) string {
		if st, ok := t.(*ast.StarExpr); ok {
			if id, ok := st.X.(*ast.Ident); ok {
				return "*" + id.Name
			}
		}
		if id, ok := t.(*ast.Ident); ok {
			return id.Name
		}
		return ""
	}
	fields := func(fl *ast.FieldList) {
		if fl == nil {
			return
		}
		for _, f := range fl.List {
			for _, n := range f.Names {
				switch typ(f.Type) {
				case "*connState":
					cs[n.Name] = true
				case "File":
					files[n.Name] = true
				}
			}
		}
	}
	fields(fd.Recv)
	fields(fd.Type.Params)
	fields(fd.Type.Results)
	ast.Inspect(fd.Body, func(n ast.Node) bool {
		switch x := n.(type) {
		case *ast.ValueSpec:
			if x.Type != nil && typ(x.Type) == "File" {
				for _, id := range x.Names {
					files[id.Name] = true
				}
			}
		case *ast.AssignStmt:
			// sf, err := cs.server.attacher.Attach()
			if x.Tok == token.DEFINE && len(x.Rhs) == 1 && len(x.Lhs) >= 1 {
				if c, ok := x.Rhs[0].(*ast.CallExpr); ok {
					if sel, ok := c.Fun.(*ast.SelectorExpr); ok && sel.Sel.Name == "Attach" {
						if id, ok := x.Lhs[0].(*ast.Ident); ok {
							files[id.Name] = true
						}
					}
				}
			}
		}
		return true
	})
	return
}

func newHgen(r *Repo, fd *ast.FuncDecl, alpha bool) *hgen {
	g := &hgen{r: r, fd: fd, alpha: alpha}
	g.cs, g.files = hgLocalTypes(fd)
	g.locals = LocalNames(fd)
	return g
}

func (g *hgen) isCS(e ast.Expr) bool {
	id, ok := e.(*ast.Ident)
	return ok && g.cs[id.Name]
}

// isAttacher: <cs>.server.attacher
func (g *hgen) isAttacher(e ast.Expr) bool {
	s1, ok := e.(*ast.SelectorExpr)
	if !ok || s1.Sel.Name != "attacher" {
		return false
	}
	s2, ok := s1.X.(*ast.SelectorExpr)
	return ok && s2.Sel.Name == "server" && g.isCS(s2.X)
}

// isFileRecv: receivers that denote a backend File / the Attacher
func (g *hgen) isFileRecv(e ast.Expr) bool {
	switch x := e.(type) {
	case *ast.SelectorExpr:
		return x.Sel.Name == "file" || g.isAttacher(e)
	case *ast.Ident:
		return g.files[x.Name]
	}
	return false
}

func (g *hgen) isLocal(e ast.Expr) bool {
	id, ok := e.(*ast.Ident)
	if !ok {
		return false
	}
	_, l := g.locals[id.Name]
	return l
}

func (g *hgen) emit(format string, a ...interface{}) { g.events = append(g.events, fmt.Sprintf(format, a...)) }

func (g *hgen) refuse(p token.Pos, format string, a ...interface{}) {
	if g.err == nil {
		g.err = g.r.Refuse(p, format, a...)
	}
}

func (g *hgen) src(n ast.Node) string {
	if g.alpha {
		return strings.Join(strings.Fields(AlphaPrint(g.r.Fset, g.fd, n)), " ")
	}
	var b bytes.Buffer
	printer.Fprint(&b, g.r.Fset, n)
	return strings.Join(strings.Fields(b.String()), " ")
}

// recvText: how a backend receiver is written in an event: the Attacher as "attacher"; in the
// alpha table a File-typed local as "<_vN>" (so that the summaries can tell it from a fidRef's file)
func (g *hgen) recvText(e ast.Expr) string {
	if g.isAttacher(e) {
		return "attacher"
	}
	if _, ok := e.(*ast.Ident); ok && g.alpha && g.isFileRecv(e) {
		return "<" + g.src(e) + ">"
	}
	return g.src(e)
}

// errnoOf recognises linux.EXXX and newErr(linux.EXXX).
func errnoOf(e ast.Expr) (string, bool) {
	if c, ok := e.(*ast.CallExpr); ok {
		if id, ok := c.Fun.(*ast.Ident); ok && id.Name == "newErr" && len(c.Args) == 1 {
			return errnoOf(c.Args[0])
		}
		return "", false
	}
	if s, ok := e.(*ast.SelectorExpr); ok {
		if id, ok := s.X.(*ast.Ident); ok && id.Name == "linux" && strings.HasPrefix(s.Sel.Name, "E") {
			return s.Sel.Name, true
		}
	}
	return "", false
}

// calls visits the call expressions of e in evaluation order (arguments first).
func (g *hgen) calls(e ast.Node) {
	if e == nil {
		return
	}
	switch x := e.(type) {
	case *ast.CallExpr:
		g.call(x)
	case *ast.FuncLit:
		g.refuse(x.Pos(), "function literal outside safely*/defer")
	case *ast.TypeAssertExpr:
		if c, ok := x.X.(*ast.CallExpr); ok && len(c.Args) == 0 {
			if s1, ok := c.Fun.(*ast.SelectorExpr); ok && s1.Sel.Name == "Get" {
				if s2, ok := s1.X.(*ast.SelectorExpr); ok && s2.Sel.Name == "readBufPool" && g.isCS(s2.X) {
					g.emit("pool-get")
					return
				}
			}
		}
		g.calls(x.X)
	case *ast.BinaryExpr:
		g.calls(x.X)
		g.calls(x.Y)
	case *ast.UnaryExpr:
		g.calls(x.X)
	case *ast.ParenExpr:
		g.calls(x.X)
	case *ast.StarExpr:
		g.calls(x.X)
	case *ast.SelectorExpr:
		g.calls(x.X)
	case *ast.IndexExpr:
		g.calls(x.X)
		g.calls(x.Index)
	case *ast.SliceExpr:
		g.calls(x.X)
		g.calls(x.Low)
		g.calls(x.High)
	case *ast.CompositeLit:
		for _, el := range x.Elts {
			g.calls(el)
		}
	case *ast.KeyValueExpr:
		g.calls(x.Value)
	case *ast.Ident, *ast.BasicLit, *ast.ArrayType, *ast.StructType, *ast.FuncType, *ast.InterfaceType, *ast.MapType:
	default:
		g.refuse(e.Pos(), "expression %T", e)
	}
}

func (g *hgen) args(c *ast.CallExpr) string {
	var as []string
	for _, a := range c.Args {
		as = append(as, g.src(a))
	}
	return strings.Join(as, ", ")
}

func (g *hgen) call(c *ast.CallExpr) {
	if fl, ok := c.Fun.(*ast.FuncLit); ok && len(c.Args) == 0 {
		// func() { ... }(): a block with its own defers
		g.emit("block{")
		g.block(fl.Body.List)
		g.emit("}block")
		return
	}
	fun := g.src(c.Fun)
	// closures passed to safely*
	if sel, ok := c.Fun.(*ast.SelectorExpr); ok && strings.HasPrefix(sel.Sel.Name, "safely") {
		if len(c.Args) != 1 {
			g.refuse(c.Pos(), "%s with %d arguments", fun, len(c.Args))
			return
		}
		fl, ok := c.Args[0].(*ast.FuncLit)
		if !ok {
			g.refuse(c.Pos(), "%s without a function literal", fun)
			return
		}
		g.emit("wrap:%s:%s", sel.Sel.Name, g.src(sel.X))
		g.block(fl.Body.List)
		g.emit("endwrap")
		return
	}
	for _, a := range c.Args {
		g.calls(a)
	}
	if sel, ok := c.Fun.(*ast.SelectorExpr); ok {
		g.calls(sel.X)
		recv, m := g.src(sel.X), sel.Sel.Name
		isCS := g.isCS(sel.X)
		switch {
		case hgBackendMethods[m] && g.isFileRecv(sel.X):
			g.emit("call:%s.%s(%s)", g.recvText(sel.X), m, g.args(c))
		case isCS && m == "LookupFID":
			g.emit("lookup:%s", g.args(c))
		case isCS && m == "InsertFID" && len(c.Args) == 2:
			g.emit("insert:%s:%s", g.src(c.Args[0]), g.src(c.Args[1]))
		case isCS && m == "DeleteFID":
			g.emit("delete:%s", g.args(c))
		case m == "DecRef":
			g.emit("decref:%s", recv)
		case m == "IncRef" || m == "TryIncRef":
			g.emit("incref:%s", recv)
		case m == "do" && len(c.Args) == 2:
			g.emit("delegate:%s(%s)", fun, g.args(c))
		case hgTreeMethods[m]:
			g.emit("tree:%s(%s)", fun, g.args(c))
		case m == "Lock" || m == "Unlock" || m == "RLock" || m == "RUnlock":
			g.emit("lock:%s", fun)
		case recv == "atomic" && !g.isLocal(sel.X) && (m == "AddInt64" || m == "LoadInt64" || m == "CompareAndSwapInt64" || m == "LoadUint32"):
			g.emit("atomic:%s(%s)", m, g.args(c))
		case hgPure[fun] || hgPureMethods[m]:
		case m == "handle" && len(c.Args) <= 1:
			g.emit("delegate:%s(%s)", fun, g.args(c))
		default:
			g.refuse(c.Pos(), "call %s", fun)
		}
		return
	}
	switch fun {
	case "checkSafeName":
		g.emit("name:%s", g.args(c))
	case "doWalk", "walkOne", "clunkHandleXattr":
		g.emit("delegate:%s(%s)", fun, g.args(c))
	case "panic":
		g.emit("panic")
	case "recover":
		g.emit("recover")
	case "delete":
		g.emit("mapdelete:%s", g.args(c))
	default:
		if !hgPure[fun] {
			g.refuse(c.Pos(), "call %s", fun)
		}
	}
}

func (g *hgen) ret(s *ast.ReturnStmt) {
	for _, r := range s.Results {
		g.calls(r)
	}
	var parts []string
	for _, r := range s.Results {
		if e, ok := errnoOf(r); ok {
			parts = append(parts, e)
			continue
		}
		t := g.src(r)
		isNewErrOfLocal := false
		if c, ok := r.(*ast.CallExpr); ok && len(c.Args) == 1 {
			if id, ok := c.Fun.(*ast.Ident); ok && id.Name == "newErr" && g.isLocal(c.Args[0]) {
				isNewErrOfLocal = true
			}
		}
		switch {
		case t == "nil" || t == "true" || t == "false":
			parts = append(parts, t)
		case g.isLocal(r):
			// a local error / value variable; in the raw table under its name
			parts = append(parts, t)
		case isNewErrOfLocal:
			parts = append(parts, "err")
		case strings.HasPrefix(t, "&r") && strings.Contains(t, "{"):
			parts = append(parts, t[:strings.Index(t, "{")])
		case strings.HasSuffix(t, "{}"):
			parts = append(parts, strings.TrimSuffix(t, "{}"))
		default:
			parts = append(parts, t)
		}
	}
	g.emit("return:%s", strings.Join(parts, ","))
}

func (g *hgen) block(list []ast.Stmt) {
	for _, s := range hgNormaliseGuard(list) {
		g.stmt(s)
	}
}

// hgNormaliseGuard: the "nothing to do" guard clause
//
//	if A != B { return nil }; REST...; return X        (REST ends the block with a return)
//
// is read as its nested form
//
//	if A == B { REST...; return X }; return nil
//
// (the two are the same program; fidRef.DecRef is written either way).  Only a guard whose condition is a
// single `!=` comparison and whose body is exactly `return nil` is rewritten, so `if err != nil { return err }` and
// every other guard keep their reading.
func hgNormaliseGuard(list []ast.Stmt) []ast.Stmt {
	for i, s := range list {
		ifs, ok := s.(*ast.IfStmt)
		if !ok || ifs.Init != nil || ifs.Else != nil || len(ifs.Body.List) != 1 || i == len(list)-1 {
			continue
		}
		ret, ok := ifs.Body.List[0].(*ast.ReturnStmt)
		if !ok || len(ret.Results) != 1 {
			continue
		}
		if id, ok := ret.Results[0].(*ast.Ident); !ok || id.Name != "nil" {
			continue
		}
		be, ok := ifs.Cond.(*ast.BinaryExpr)
		if !ok || be.Op != token.NEQ {
			continue
		}
		rest := list[i+1:]
		if _, ok := rest[len(rest)-1].(*ast.ReturnStmt); !ok {
			continue
		}
		pos := *be
		pos.Op = token.EQL
		nested := &ast.IfStmt{If: ifs.If, Cond: &pos, Body: &ast.BlockStmt{Lbrace: ifs.Body.Lbrace, List: hgNormaliseGuard(rest), Rbrace: ifs.Body.Rbrace}}
		out := append([]ast.Stmt{}, list[:i]...)
		return append(out, nested, ret)
	}
	return list
}

func (g *hgen) stmt(s ast.Stmt) {
	if g.err != nil {
		return
	}
	switch x := s.(type) {
	case *ast.IfStmt:
		if x.Init != nil {
			g.stmt(x.Init)
		}
		g.calls(x.Cond)
		g.emit("if:%s", g.src(x.Cond))
		g.block(x.Body.List)
		if x.Else != nil {
			g.emit("else")
			switch e := x.Else.(type) {
			case *ast.BlockStmt:
				g.block(e.List)
			default:
				g.stmt(e)
			}
		}
		g.emit("endif")
	case *ast.SwitchStmt:
		if x.Init != nil {
			g.stmt(x.Init)
		}
		tag := ""
		if x.Tag != nil {
			g.calls(x.Tag)
			tag = g.src(x.Tag)
		}
		g.emit("switch:%s", tag)
		for _, cc := range x.Body.List {
			cl := cc.(*ast.CaseClause)
			if cl.List == nil {
				g.emit("default")
			} else {
				var vs []string
				for _, v := range cl.List {
					g.calls(v)
					vs = append(vs, g.src(v))
				}
				g.emit("case:%s", strings.Join(vs, ","))
			}
			g.block(cl.Body)
		}
		g.emit("endswitch")
	case *ast.ExprStmt:
		g.calls(x.X)
	case *ast.AssignStmt:
		for _, r := range x.Rhs {
			g.calls(r)
		}
		// alpha table: "lookup:<fid>=><variable>" so that the deferred DecRef can be matched to it
		if g.alpha && len(x.Rhs) == 1 && len(x.Lhs) >= 1 && len(g.events) > 0 {
			if c, ok := x.Rhs[0].(*ast.CallExpr); ok {
				if sel, ok := c.Fun.(*ast.SelectorExpr); ok && sel.Sel.Name == "LookupFID" && g.isCS(sel.X) &&
					strings.HasPrefix(g.events[len(g.events)-1], "lookup:") {
					g.events[len(g.events)-1] += "=>" + g.src(x.Lhs[0])
				}
			}
		}
		if len(x.Lhs) == 1 && len(x.Rhs) == 1 {
			if e, ok := errnoOf(x.Rhs[0]); ok {
				g.emit("seterr:%s:%s", g.src(x.Lhs[0]), e)
			}
		}
		for _, l := range x.Lhs {
			switch l.(type) {
			case *ast.Ident:
			case *ast.SelectorExpr, *ast.IndexExpr:
				g.emit("set:%s", g.src(l))
			default:
				g.refuse(l.Pos(), "assignment target %T", l)
			}
		}
	case *ast.DeferStmt:
		if fl, ok := x.Call.Fun.(*ast.FuncLit); ok {
			g.emit("defer:func")
			g.block(fl.Body.List)
			g.emit("enddefer")
			return
		}
		for _, a := range x.Call.Args {
			g.calls(a)
		}
		g.emit("defer:%s", g.src(x.Call.Fun))
	case *ast.DeclStmt:
		gd, ok := x.Decl.(*ast.GenDecl)
		if !ok {
			g.refuse(x.Pos(), "declaration")
			return
		}
		for _, sp := range gd.Specs {
			if vs, ok := sp.(*ast.ValueSpec); ok {
				for _, v := range vs.Values {
					g.calls(v)
				}
			}
		}
	case *ast.ReturnStmt:
		g.ret(x)
	case *ast.ForStmt:
		if x.Init != nil {
			g.stmt(x.Init)
		}
		c := ""
		if x.Cond != nil {
			g.calls(x.Cond)
			c = g.src(x.Cond)
		}
		g.emit("for:%s", c)
		g.block(x.Body.List)
		if x.Post != nil {
			g.stmt(x.Post)
		}
		g.emit("endfor")
	case *ast.RangeStmt:
		g.calls(x.X)
		g.emit("for:range %s", g.src(x.X))
		g.block(x.Body.List)
		g.emit("endfor")
	case *ast.BlockStmt:
		g.block(x.List)
	case *ast.IncDecStmt:
	case *ast.BranchStmt:
		g.emit("branch:%s", x.Tok.String())
	case *ast.GoStmt, *ast.SelectStmt, *ast.SendStmt, *ast.LabeledStmt, *ast.TypeSwitchStmt:
		g.refuse(x.Pos(), "statement %T in a handler", x)
	default:
		g.refuse(s.Pos(), "statement %T", s)
	}
}

func runHandlerGen(r *Repo) (string, error) {
	files, err := r.Files("p9")
	if err != nil {
		return "", err
	}
	type fn struct {
		name string
		decl *ast.FuncDecl
	}
	var fns []fn
	skip := map[string]bool{"tversion.handle": true, "tflush.handle": true, "newErr": true}
	hf, ok := files["handlers.go"]
	if !ok {
		return "", fmt.Errorf("p9/handlers.go not found")
	}
	handled := map[string]bool{}
	for _, d := range hf.Decls {
		fd, ok := d.(*ast.FuncDecl)
		if !ok || fd.Body == nil {
			continue
		}
		name := fd.Name.Name
		if fd.Recv != nil && len(fd.Recv.List) == 1 {
			rt := recvTypeName(fd.Recv.List[0].Type)
			name = rt + "." + name
			if fd.Name.Name == "handle" {
				handled[rt] = true
			}
		}
		if skip[name] {
			continue
		}
		fns = append(fns, fn{name, fd})
	}
	sf, ok := files["server.go"]
	if !ok {
		return "", fmt.Errorf("p9/server.go not found")
	}
	want := map[string]bool{"connState.handle": true, "connState.LookupFID": true, "connState.InsertFID": true, "connState.DeleteFID": true, "fidRef.DecRef": true,
		"fidRef.safelyRead": true, "fidRef.safelyWrite": true, "fidRef.safelyGlobal": true}
	for _, d := range sf.Decls {
		fd, ok := d.(*ast.FuncDecl)
		if !ok || fd.Body == nil || fd.Recv == nil || len(fd.Recv.List) != 1 {
			continue
		}
		name := recvTypeName(fd.Recv.List[0].Type) + "." + fd.Name.Name
		if want[name] {
			fns = append(fns, fn{name, fd})
			delete(want, name)
		}
	}
	if len(want) > 0 {
		var ms []string
		for k := range want {
			ms = append(ms, k)
		}
		sort.Strings(ms)
		return "", fmt.Errorf("p9/server.go: functions not found: %s", strings.Join(ms, ", "))
	}
	sort.Slice(fns, func(i, j int) bool { return fns[i].name < fns[j].name })

	var b strings.Builder
	b.WriteString("From Coq Require Import String List.\nImport ListNotations.\nOpen Scope string_scope.\n\n")
	b.WriteString("(* ordered event traces; vocabulary in tools/go2coq/handlergen.go *)\n")
	emitTraces := func(defName string, alpha bool) error {
		fmt.Fprintf(&b, "Definition %s : list (string * list string) := [\n", defName)
		for i, f := range fns {
			g := newHgen(r, f.decl, alpha)
			if f.name == "fidRef.safelyRead" || f.name == "fidRef.safelyWrite" || f.name == "fidRef.safelyGlobal" {
				// the wrappers themselves: lock / deferred unlock bracketing around fn()
				for _, s := range f.decl.Body.List {
					switch x := s.(type) {
					case *ast.ReturnStmt:
						g.emit("return:%s", g.src(x.Results[0]))
					default:
						g.stmt(s)
					}
				}
			} else {
				g.block(f.decl.Body.List)
			}
			if g.err != nil {
				return g.err
			}
			fmt.Fprintf(&b, "  (%s, [", CoqString(f.name))
			for j, e := range g.events {
				for _, ch := range e {
					if ch < 32 || ch > 126 {
						return r.Refuse(f.decl.Pos(), "non-ASCII text in %s", f.name)
					}
				}
				if j > 0 {
					b.WriteString("; ")
				}
				if j%4 == 0 {
					b.WriteString("\n     ")
				}
				b.WriteString(CoqString(e))
			}
			b.WriteString("])")
			if i+1 < len(fns) {
				b.WriteString(";")
			}
			b.WriteString("\n")
		}
		b.WriteString("].\n\n")
		return nil
	}
	if err := emitTraces("handler_traces", false); err != nil {
		return "", err
	}
	b.WriteString("(* the same traces with the local identifiers of each function printed positionally (_v0 = receiver or first\n   parameter, ... in declaration order; tools/go2coq/alpha.go): unchanged by a rename of a local *)\n")
	if err := emitTraces("handler_traces_alpha", true); err != nil {
		return "", err
	}

	// string-typed fields of the T-messages that have handlers (embedded structs flattened)
	mf, ok := files["messages.go"]
	if !ok {
		return "", fmt.Errorf("p9/messages.go not found")
	}
	structs := map[string]*ast.StructType{}
	for _, d := range mf.Decls {
		gd, ok := d.(*ast.GenDecl)
		if !ok || gd.Tok != token.TYPE {
			continue
		}
		for _, sp := range gd.Specs {
			ts := sp.(*ast.TypeSpec)
			if st, ok := ts.Type.(*ast.StructType); ok {
				structs[ts.Name.Name] = st
			}
		}
	}
	var strFields func(name, prefix string, depth int) ([]string, error)
	strFields = func(name, prefix string, depth int) ([]string, error) {
		st, ok := structs[name]
		if !ok || depth > 3 {
			return nil, nil
		}
		var out []string
		for _, f := range st.Fields.List {
			tn := ""
			switch t := f.Type.(type) {
			case *ast.Ident:
				tn = t.Name
			case *ast.ArrayType:
				if id, ok := t.Elt.(*ast.Ident); ok && t.Len == nil {
					tn = "[]" + id.Name
				}
			}
			names := []string{}
			for _, n := range f.Names {
				names = append(names, n.Name)
			}
			if len(names) == 0 {
				names = []string{tn} // embedded
			}
			for _, n := range names {
				switch {
				case tn == "string" || tn == "[]string":
					out = append(out, prefix+n)
				case structs[tn] != nil && strings.HasPrefix(tn, "t"):
					sub, err := strFields(tn, prefix+n+".", depth+1)
					if err != nil {
						return nil, err
					}
					out = append(out, sub...)
				}
			}
		}
		return out, nil
	}
	var hs []string
	for k := range handled {
		hs = append(hs, k)
	}
	sort.Strings(hs)
	// every Lock / RLock site of the request path and how it is released
	b.WriteString("(* (function, lock operation, release): release = deferred | explicit | explicit-with-calls:<callees between lock and unlock> *)\n")
	for _, alpha := range []bool{false, true} {
		locks, err := lockSites(r, files, alpha)
		if err != nil {
			return "", err
		}
		if alpha {
			b.WriteString("Definition lock_sites_alpha : list (string * string * string) := [\n")
		} else {
			b.WriteString("Definition lock_sites : list (string * string * string) := [\n")
		}
		for i, l := range locks {
			fmt.Fprintf(&b, "  (%s, %s, %s)", CoqString(l[0]), CoqString(l[1]), CoqString(l[2]))
			if i+1 < len(locks) {
				b.WriteString(";")
			}
			b.WriteString("\n")
		}
		b.WriteString("].\n\n")
	}

	b.WriteString("Definition tmsg_string_fields : list (string * list string) := [\n")
	for i, h := range hs {
		fs, err := strFields(h, "", 0)
		if err != nil {
			return "", err
		}
		var qs []string
		for _, f := range fs {
			qs = append(qs, CoqString(f))
		}
		fmt.Fprintf(&b, "  (%s, [%s])", CoqString(h), strings.Join(qs, "; "))
		if i+1 < len(hs) {
			b.WriteString(";")
		}
		b.WriteString("\n")
	}
	b.WriteString("].\n")
	return b.String(), nil
}


// ---------------------------------------------------------------------------
// lock sites

var lockPureCalls = map[string]bool{"len": true, "delete": true, "make": true, "append": true, "panic": true, "fmt.Sprintf": true}

func isLockCall(e ast.Expr) (recv, op string, ok bool) {
	c, ok := e.(*ast.CallExpr)
	if !ok || len(c.Args) != 0 {
		return "", "", false
	}
	sel, ok := c.Fun.(*ast.SelectorExpr)
	if !ok {
		return "", "", false
	}
	switch sel.Sel.Name {
	case "Lock", "RLock", "Unlock", "RUnlock":
		return "", sel.Sel.Name, true
	}
	return "", "", false
}

func lockSites(r *Repo, files map[string]*ast.File, alpha bool) ([][3]string, error) {
	var out [][3]string
	seen := map[token.Pos]bool{}
	var curFd *ast.FuncDecl
	src := func(n ast.Node) string {
		if alpha && curFd != nil {
			return strings.Join(strings.Fields(AlphaPrint(r.Fset, curFd, n)), " ")
		}
		var b bytes.Buffer
		printer.Fprint(&b, r.Fset, n)
		return strings.Join(strings.Fields(b.String()), " ")
	}
	// callees of every call expression inside n (function literals included), except lock operations themselves
	callees := func(n ast.Node) []string {
		var cs []string
		ast.Inspect(n, func(x ast.Node) bool {
			c, ok := x.(*ast.CallExpr)
			if !ok {
				return true
			}
			if _, _, isl := isLockCall(c); isl {
				return true
			}
			f := src(c.Fun)
			if _, isLit := c.Fun.(*ast.FuncLit); isLit {
				f = "func-literal"
			}
			if !lockPureCalls[f] {
				cs = append(cs, f)
			}
			return true
		})
		return cs
	}
	var scan func(fn string, list []ast.Stmt) error
	scan = func(fn string, list []ast.Stmt) error {
		for i, s := range list {
			// nested blocks
			switch x := s.(type) {
			case *ast.IfStmt:
				if err := scan(fn, x.Body.List); err != nil {
					return err
				}
				if eb, ok := x.Else.(*ast.BlockStmt); ok {
					if err := scan(fn, eb.List); err != nil {
						return err
					}
				}
			case *ast.ForStmt:
				if err := scan(fn, x.Body.List); err != nil {
					return err
				}
			case *ast.RangeStmt:
				if err := scan(fn, x.Body.List); err != nil {
					return err
				}
			case *ast.BlockStmt:
				if err := scan(fn, x.List); err != nil {
					return err
				}
			case *ast.SwitchStmt:
				for _, cc := range x.Body.List {
					if err := scan(fn, cc.(*ast.CaseClause).Body); err != nil {
						return err
					}
				}
			}
			// function literals (safely* closures, defers, go statements)
			ast.Inspect(s, func(x ast.Node) bool {
				if fl, ok := x.(*ast.FuncLit); ok {
					scan(fn, fl.Body.List)
					return false
				}
				return true
			})
			es, ok := s.(*ast.ExprStmt)
			if !ok {
				continue
			}
			_, op, isl := isLockCall(es.X)
			if !isl || (op != "Lock" && op != "RLock") || seen[es.Pos()] {
				continue
			}
			seen[es.Pos()] = true
			mu := src(es.X.(*ast.CallExpr).Fun.(*ast.SelectorExpr).X)
			unl := "Unlock"
			if op == "RLock" {
				unl = "RUnlock"
			}
			want := mu + "." + unl
			release := ""
			var between []string
			for _, t := range list[i+1:] {
				if d, ok := t.(*ast.DeferStmt); ok && src(d.Call.Fun) == want {
					if len(between) == 0 {
						release = "deferred"
					} else {
						release = "deferred-after-calls:" + strings.Join(between, ",")
					}
					break
				}
				if e2, ok := t.(*ast.ExprStmt); ok {
					if c2, ok := e2.X.(*ast.CallExpr); ok && src(c2.Fun) == want {
						if len(between) == 0 {
							release = "explicit"
						} else {
							release = "explicit-with-calls:" + strings.Join(between, ",")
						}
						break
					}
				}
				// an early unlock inside a branch that leaves the function does not end the region
				between = append(between, calleesSkipping(callees, t, want)...)
			}
			if release == "" {
				return r.Refuse(s.Pos(), "no release of %s.%s found in the same block of %s", mu, op, fn)
			}
			out = append(out, [3]string{fn, mu + "." + op, release})
		}
		return nil
	}
	for _, fname := range []string{"handlers.go", "path_tree.go", "server.go"} {
		f, ok := files[fname]
		if !ok {
			return nil, fmt.Errorf("p9/%s not found", fname)
		}
		for _, d := range f.Decls {
			fd, ok := d.(*ast.FuncDecl)
			if !ok || fd.Body == nil {
				continue
			}
			name := fd.Name.Name
			if fd.Recv != nil && len(fd.Recv.List) == 1 {
				name = recvTypeName(fd.Recv.List[0].Type) + "." + name
			}
			curFd = fd
			if err := scan(name, fd.Body.List); err != nil {
				return nil, err
			}
		}
	}
	sort.Slice(out, func(i, j int) bool {
		if out[i][0] != out[j][0] {
			return out[i][0] < out[j][0]
		}
		return false
	})
	return out, nil
}

// calleesSkipping lists the callees of t, ignoring calls of the unlock itself (early-exit branches).
func calleesSkipping(callees func(ast.Node) []string, t ast.Stmt, unlock string) []string {
	var out []string
	for _, c := range callees(t) {
		if c != unlock {
			out = append(out, c)
		}
	}
	return out
}
