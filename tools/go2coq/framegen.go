package main

// FrameGen: the message registry as recv's lookup sees it (C02/C17): for every
// msgDotLRegistry.register(msgX, func() message { return &T{} }) in p9/messages.go
// the type number and, when *T has a FixedSize method (a payloader), the constant
// it returns.  Emits coq/gen/FrameGen.v.  Refuses register calls and FixedSize
// bodies of any other shape.

import (
	"fmt"
	"go/ast"
	"go/token"
	"sort"
	"strconv"
	"strings"
)

func init() { register(Generator{Name: "FrameGen", Run: runFrameGen}) }

func runFrameGen(r *Repo) (string, error) {
	files, err := r.Files("p9")
	if err != nil {
		return "", err
	}
	pos := func(n ast.Node) string { return r.Fset.Position(n.Pos()).String() }

	// constants msgX
	consts := map[string]int64{}
	for _, f := range files {
		for _, d := range f.Decls {
			gd, ok := d.(*ast.GenDecl)
			if !ok || gd.Tok != token.CONST {
				continue
			}
			for _, sp := range gd.Specs {
				vs := sp.(*ast.ValueSpec)
				for i, n := range vs.Names {
					if !strings.HasPrefix(n.Name, "msg") || i >= len(vs.Values) {
						continue
					}
					v := vs.Values[i]
					if ce, ok := v.(*ast.CallExpr); ok && len(ce.Args) == 1 { // msgType(7)
						v = ce.Args[0]
					}
					if bl, ok := v.(*ast.BasicLit); ok && bl.Kind == token.INT {
						if x, err := strconv.ParseInt(bl.Value, 0, 64); err == nil {
							consts[n.Name] = x
						}
					}
				}
			}
		}
	}

	// FixedSize methods: func (*T) FixedSize() uint32 { return N }
	fixed := map[string]int64{}
	embeds := map[string][]string{}
	for _, f := range files {
		for _, d := range f.Decls {
			switch x := d.(type) {
			case *ast.FuncDecl:
				if x.Name.Name != "FixedSize" || x.Recv == nil || len(x.Recv.List) != 1 {
					continue
				}
				rt := x.Recv.List[0].Type
				if st, ok := rt.(*ast.StarExpr); ok {
					rt = st.X
				}
				id, ok := rt.(*ast.Ident)
				if !ok {
					return "", fmt.Errorf("%s: FixedSize receiver not understood", pos(x))
				}
				if x.Body == nil || len(x.Body.List) != 1 {
					return "", fmt.Errorf("%s: FixedSize body is not a single return", pos(x))
				}
				ret, ok := x.Body.List[0].(*ast.ReturnStmt)
				if !ok || len(ret.Results) != 1 {
					return "", fmt.Errorf("%s: FixedSize body is not a single return", pos(x))
				}
				bl, ok := ret.Results[0].(*ast.BasicLit)
				if !ok || bl.Kind != token.INT {
					return "", fmt.Errorf("%s: FixedSize does not return an integer literal", pos(ret))
				}
				v, err := strconv.ParseInt(bl.Value, 0, 64)
				if err != nil {
					return "", fmt.Errorf("%s: %v", pos(bl), err)
				}
				fixed[id.Name] = v
			case *ast.GenDecl:
				if x.Tok != token.TYPE {
					continue
				}
				for _, sp := range x.Specs {
					ts := sp.(*ast.TypeSpec)
					st, ok := ts.Type.(*ast.StructType)
					if !ok {
						continue
					}
					for _, fl := range st.Fields.List {
						if len(fl.Names) == 0 {
							if id, ok := fl.Type.(*ast.Ident); ok {
								embeds[ts.Name.Name] = append(embeds[ts.Name.Name], id.Name)
							}
						}
					}
				}
			}
		}
	}
	var fixedOf func(t string, depth int) (int64, bool)
	fixedOf = func(t string, depth int) (int64, bool) {
		if v, ok := fixed[t]; ok {
			return v, true
		}
		if depth > 4 {
			return 0, false
		}
		for _, e := range embeds[t] { // promoted through embedding
			if v, ok := fixedOf(e, depth+1); ok {
				return v, true
			}
		}
		return 0, false
	}

	type ent struct {
		typ   int64
		name  string
		goTyp string
		fixed int64
		pay   bool
	}
	var ents []ent
	seen := map[int64]bool{}
	found := false
	for _, f := range files {
		for _, d := range f.Decls {
			fd, ok := d.(*ast.FuncDecl)
			if !ok || fd.Name.Name != "init" || fd.Recv != nil || fd.Body == nil {
				continue
			}
			for _, st := range fd.Body.List {
				es, ok := st.(*ast.ExprStmt)
				if !ok {
					continue
				}
				ce, ok := es.X.(*ast.CallExpr)
				if !ok {
					continue
				}
				se, ok := ce.Fun.(*ast.SelectorExpr)
				if !ok || se.Sel.Name != "register" {
					continue
				}
				if x, ok := se.X.(*ast.Ident); !ok || x.Name != "msgDotLRegistry" {
					continue
				}
				found = true
				if len(ce.Args) != 2 {
					return "", fmt.Errorf("%s: register with %d arguments", pos(ce), len(ce.Args))
				}
				cn, ok := ce.Args[0].(*ast.Ident)
				if !ok {
					return "", fmt.Errorf("%s: register type argument is not a constant name", pos(ce))
				}
				tv, ok := consts[cn.Name]
				if !ok {
					return "", fmt.Errorf("%s: unknown constant %s", pos(cn), cn.Name)
				}
				fl, ok := ce.Args[1].(*ast.FuncLit)
				if !ok || len(fl.Body.List) != 1 {
					return "", fmt.Errorf("%s: register factory is not func() message { return &T{} }", pos(ce))
				}
				ret, ok := fl.Body.List[0].(*ast.ReturnStmt)
				if !ok || len(ret.Results) != 1 {
					return "", fmt.Errorf("%s: register factory is not a single return", pos(fl))
				}
				ue, ok := ret.Results[0].(*ast.UnaryExpr)
				if !ok || ue.Op != token.AND {
					return "", fmt.Errorf("%s: register factory does not return &T{}", pos(ret))
				}
				cl, ok := ue.X.(*ast.CompositeLit)
				if !ok || len(cl.Elts) != 0 {
					return "", fmt.Errorf("%s: register factory does not return &T{}", pos(ret))
				}
				tid, ok := cl.Type.(*ast.Ident)
				if !ok {
					return "", fmt.Errorf("%s: register factory type not understood", pos(cl))
				}
				if seen[tv] {
					return "", fmt.Errorf("%s: type %d registered twice", pos(ce), tv)
				}
				seen[tv] = true
				e := ent{typ: tv, name: cn.Name, goTyp: tid.Name}
				e.fixed, e.pay = fixedOf(tid.Name, 0)
				ents = append(ents, e)
			}
		}
	}
	if !found || len(ents) == 0 {
		return "", fmt.Errorf("p9/messages.go: no msgDotLRegistry.register calls found")
	}
	sort.Slice(ents, func(i, j int) bool { return ents[i].typ < ents[j].typ })
	var b strings.Builder
	b.WriteString("From Coq Require Import NArith List.\nImport ListNotations.\nOpen Scope N_scope.\n\n")
	b.WriteString("(** msgDotLRegistry: (type number, Some FixedSize for payloaders / None for plain messages) *)\n")
	b.WriteString("Definition frame_registry : list (N * option N) := [\n")
	for i, e := range ents {
		sep := ";"
		if i == len(ents)-1 {
			sep = ""
		}
		v := "None"
		if e.pay {
			v = fmt.Sprintf("Some %d", e.fixed)
		}
		fmt.Fprintf(&b, "  (%d, %s)%s   (* %s -> %s *)\n", e.typ, v, sep, e.name, e.goTyp)
	}
	b.WriteString("].\n")
	return b.String(), nil
}
