package main

// FrameGen: the message registry as recv's lookup sees it (C02/C17): for every
// msgDotLRegistry.register(msgX, func() message { return &T{} }) in p9/messages.go
// the type number and, when *T has a FixedSize method (a payloader), the constant
// it returns.  Emits coq/gen/FrameGen.v.  Refuses register calls and FixedSize
// bodies of any other shape.

import (
	"fmt"
	"go/ast"
	"go/token"
	"sort"
	"strconv"
	"strings"
)

func init() { register(Generator{Name: "FrameGen", Run: runFrameGen}) }

func runFrameGen(r *Repo) (string, error) {
	files, err := r.Files("p9")
	if err != nil {
		return "", err
	}
	pos := func(n ast.Node) string { return r.Fset.Position(n.Pos()).String() }

	// constants msgX
	consts := map[string]int64{}
	for _, f := range files {
		for _, d := range f.Decls {
			gd, ok := d.(*ast.GenDecl)
			if !ok || gd.Tok != token.CONST {
				continue
			}
			for _, sp := range gd.Specs {
				vs := sp.(*ast.ValueSpec)
				for i, n := range vs.Names {
					if !strings.HasPrefix(n.Name, "msg") || i >= len(vs.Values) {
						continue
					}
					v := vs.Values[i]
					if ce, ok := v.(*ast.CallExpr); ok && len(ce.Args) == 1 { // msgType(7)
						v = ce.Args[0]
					}
					if bl, ok := v.(*ast.BasicLit); ok && bl.Kind == token.INT {
						if x, err := strconv.ParseInt(bl.Value, 0, 64); err == nil {
							consts[n.Name] = x
						}
					}
				}
			}
		}
	}

	// FixedSize methods: func (*T) FixedSize() uint32 { return N }
	fixed := map[string]int64{}
	embeds := map[string][]string{}
	for _, f := range files {
		for _, d := range f.Decls {
			switch x := d.(type) {
			case *ast.FuncDecl:
				if x.Name.Name != "FixedSize" || x.Recv == nil || len(x.Recv.List) != 1 {
					continue
				}
				rt := x.Recv.List[0].Type
				if st, ok := rt.(*ast.StarExpr); ok {
					rt = st.X
				}
				id, ok := rt.(*ast.Ident)
				if !ok {
					return "", fmt.Errorf("%s: FixedSize receiver not understood", pos(x))
				}
				if x.Body == nil || len(x.Body.List) != 1 {
					return "", fmt.Errorf("%s: FixedSize body is not a single return", pos(x))
				}
				ret, ok := x.Body.List[0].(*ast.ReturnStmt)
				if !ok || len(ret.Results) != 1 {
					return "", fmt.Errorf("%s: FixedSize body is not a single return", pos(x))
				}
				bl, ok := ret.Results[0].(*ast.BasicLit)
				if !ok || bl.Kind != token.INT {
					return "", fmt.Errorf("%s: FixedSize does not return an integer literal", pos(ret))
				}
				v, err := strconv.ParseInt(bl.Value, 0, 64)
				if err != nil {
					return "", fmt.Errorf("%s: %v", pos(bl), err)
				}
				fixed[id.Name] = v
			case *ast.GenDecl:
				if x.Tok != token.TYPE {
					continue
				}
				for _, sp := range x.Specs {
					ts := sp.(*ast.TypeSpec)
					st, ok := ts.Type.(*ast.StructType)
					if !ok {
						continue
					}
					for _, fl := range st.Fields.List {
						if len(fl.Names) == 0 {
							if id, ok := fl.Type.(*ast.Ident); ok {
								embeds[ts.Name.Name] = append(embeds[ts.Name.Name], id.Name)
							}
						}
					}
				}
			}
		}
	}
	var fixedOf func(t string, depth int) (int64, bool)
	fixedOf = func(t string, depth int) (int64, bool) {
		if v, ok := fixed[t]; ok {
			return v, true
		}
		if depth > 4 {
			return 0, false
		}
		for _, e := range embeds[t] { // promoted through embedding
			if v, ok := fixedOf(e, depth+1); ok {
				return v, true
			}
		}
		return 0, false
	}

	type ent struct {
		typ   int64
		name  string
		goTyp string
		fixed int64
		pay   bool
	}
	var ents []ent
	seen := map[int64]bool{}
	found := false
	for _, f := range files {
		for _, d := range f.Decls {
			fd, ok := d.(*ast.FuncDecl)
			if !ok || fd.Name.Name != "init" || fd.Recv != nil || fd.Body == nil {
				continue
			}
			for _, st := range fd.Body.List {
				es, ok := st.(*ast.ExprStmt)
				if !ok {
					continue
				}
				ce, ok := es.X.(*ast.CallExpr)
				if !ok {
					continue
				}
				se, ok := ce.Fun.(*ast.SelectorExpr)
				if !ok || se.Sel.Name != "register" {
					continue
				}
				if x, ok := se.X.(*ast.Ident); !ok || x.Name != "msgDotLRegistry" {
					continue
				}
				found = true
				if len(ce.Args) != 2 {
					return "", fmt.Errorf("%s: register with %d arguments", pos(ce), len(ce.Args))
				}
				cn, ok := ce.Args[0].(*ast.Ident)
				if !ok {
					return "", fmt.Errorf("%s: register type argument is not a constant name", pos(ce))
				}
				tv, ok := consts[cn.Name]
				if !ok {
					return "", fmt.Errorf("%s: unknown constant %s", pos(cn), cn.Name)
				}
				fl, ok := ce.Args[1].(*ast.FuncLit)
				if !ok || len(fl.Body.List) != 1 {
					return "", fmt.Errorf("%s: register factory is not func() message { return &T{} }", pos(ce))
				}
				ret, ok := fl.Body.List[0].(*ast.ReturnStmt)
				if !ok || len(ret.Results) != 1 {
					return "", fmt.Errorf("%s: register factory is not a single return", pos(fl))
				}
				ue, ok := ret.Results[0].(*ast.UnaryExpr)
				if !ok || ue.Op != token.AND {
					return "", fmt.Errorf("%s: register factory does not return &T{}", pos(ret))
				}
				cl, ok := ue.X.(*ast.CompositeLit)
				if !ok || len(cl.Elts) != 0 {
					return "", fmt.Errorf("%s: register factory does not return &T{}", pos(ret))
				}
				tid, ok := cl.Type.(*ast.Ident)
				if !ok {
					return "", fmt.Errorf("%s: register factory type not understood", pos(cl))
				}
				if seen[tv] {
					return "", fmt.Errorf("%s: type %d registered twice", pos(ce), tv)
				}
				seen[tv] = true
				e := ent{typ: tv, name: cn.Name, goTyp: tid.Name}
				e.fixed, e.pay = fixedOf(tid.Name, 0)
				ents = append(ents, e)
			}
		}
	}
	if !found || len(ents) == 0 {
		return "", fmt.Errorf("p9/messages.go: no msgDotLRegistry.register calls found")
	}
	sort.Slice(ents, func(i, j int) bool { return ents[i].typ < ents[j].typ })
	var b strings.Builder
	b.WriteString("From Coq Require Import NArith List.\nImport ListNotations.\nOpen Scope N_scope.\n\n")
	b.WriteString("(** msgDotLRegistry: (type number, Some FixedSize for payloaders / None for plain messages) *)\n")
	b.WriteString("Definition frame_registry : list (N * option N) := [\n")
	for i, e := range ents {
		sep := ";"
		if i == len(ents)-1 {
			sep = ""
		}
		v := "None"
		if e.pay {
			v = fmt.Sprintf("Some %d", e.fixed)
		}
		fmt.Fprintf(&b, "  (%d, %s)%s   (* %s -> %s *)\n", e.typ, v, sep, e.name, e.goTyp)
	}
	b.WriteString("].\n")
	return b.String(), nil
}

// VecGen: the iovec-advance code of vecnet/vecnet_linux.go readFromBuffersLinux (C17, C02-m4, C17-m3),
// read statement by statement into the little language of coq/Frame/Imp.v.  The region translated is the
// body of the receive loop (the `for` that calls recvmsg) minus the recvmsg call itself, the error guard
// (an `if` that returns) and updates of the loop's own counter; what remains is the code that advances
// bufs by the `cur` bytes one recvmsg returned.  The comparison with the model (Frame/Reader.v consume_iov)
// is semantic (Frame/VecTie.v runs the program), so names of locals and the way the loop is written are free.
func init() { register(Generator{Name: "VecGen", Run: runVecGen}) }

type vecTr struct {
	r    *Repo
	bufs string // name of the Buffers parameter
}

func (v *vecTr) stripConv(e ast.Expr) ast.Expr {
	for {
		switch x := e.(type) {
		case *ast.ParenExpr:
			e = x.X
			continue
		case *ast.CallExpr:
			if id, ok := x.Fun.(*ast.Ident); ok && len(x.Args) == 1 {
				switch id.Name {
				case "int", "int64", "int32", "uint", "uint32", "uint64", "uintptr":
					e = x.Args[0]
					continue
				}
			}
		}
		return e
	}
}

func (v *vecTr) isBufs(e ast.Expr) bool {
	id, ok := v.stripConv(e).(*ast.Ident)
	return ok && id.Name == v.bufs
}

// bufs[0]
func (v *vecTr) isHead(e ast.Expr) bool {
	ix, ok := v.stripConv(e).(*ast.IndexExpr)
	if !ok || !v.isBufs(ix.X) {
		return false
	}
	bl, ok := ix.Index.(*ast.BasicLit)
	return ok && bl.Value == "0"
}

func (v *vecTr) iexp(e ast.Expr) (string, error) {
	e = v.stripConv(e)
	switch x := e.(type) {
	case *ast.BasicLit:
		if x.Kind == token.INT {
			n, err := strconv.ParseInt(x.Value, 0, 64)
			if err == nil {
				return fmt.Sprintf("(ILit %d)", n), nil
			}
		}
	case *ast.Ident:
		if x.Name != v.bufs {
			return fmt.Sprintf("(IVar %s)", CoqString(x.Name)), nil
		}
	case *ast.CallExpr:
		if id, ok := x.Fun.(*ast.Ident); ok && id.Name == "len" && len(x.Args) == 1 {
			if v.isBufs(x.Args[0]) {
				return "ILenBufs", nil
			}
			if v.isHead(x.Args[0]) {
				return "ILenHead", nil
			}
		}
	case *ast.BinaryExpr:
		if x.Op == token.ADD || x.Op == token.SUB {
			a, err := v.iexp(x.X)
			if err != nil {
				return "", err
			}
			b, err := v.iexp(x.Y)
			if err != nil {
				return "", err
			}
			if x.Op == token.ADD {
				return fmt.Sprintf("(IAdd %s %s)", a, b), nil
			}
			return fmt.Sprintf("(ISub %s %s)", a, b), nil
		}
	}
	return "", v.r.Refuse(e.Pos(), "integer expression in the iovec-advance code")
}

func (v *vecTr) bexp(e ast.Expr) (string, error) {
	if p, ok := e.(*ast.ParenExpr); ok {
		return v.bexp(p.X)
	}
	switch x := e.(type) {
	case *ast.UnaryExpr:
		if x.Op == token.NOT {
			c, err := v.bexp(x.X)
			if err != nil {
				return "", err
			}
			return fmt.Sprintf("(BNot %s)", c), nil
		}
	case *ast.BinaryExpr:
		switch x.Op {
		case token.LAND, token.LOR:
			a, err := v.bexp(x.X)
			if err != nil {
				return "", err
			}
			b, err := v.bexp(x.Y)
			if err != nil {
				return "", err
			}
			if x.Op == token.LAND {
				return fmt.Sprintf("(BAnd %s %s)", a, b), nil
			}
			return fmt.Sprintf("(BOr %s %s)", a, b), nil
		case token.LEQ, token.LSS, token.GEQ, token.GTR, token.EQL, token.NEQ:
			a, err := v.iexp(x.X)
			if err != nil {
				return "", err
			}
			b, err := v.iexp(x.Y)
			if err != nil {
				return "", err
			}
			switch x.Op {
			case token.LEQ:
				return fmt.Sprintf("(BLe %s %s)", a, b), nil
			case token.LSS:
				return fmt.Sprintf("(BLt %s %s)", a, b), nil
			case token.GEQ:
				return fmt.Sprintf("(BLe %s %s)", b, a), nil
			case token.GTR:
				return fmt.Sprintf("(BLt %s %s)", b, a), nil
			case token.EQL:
				return fmt.Sprintf("(BEq %s %s)", a, b), nil
			default:
				return fmt.Sprintf("(BNot (BEq %s %s))", a, b), nil
			}
		}
	}
	return "", v.r.Refuse(e.Pos(), "condition in the iovec-advance code")
}

func (v *vecTr) block(l []ast.Stmt) (string, error) {
	var out []string
	for _, s := range l {
		ss, err := v.stmt(s)
		if err != nil {
			return "", err
		}
		out = append(out, ss...)
	}
	return "[" + strings.Join(out, "; ") + "]", nil
}

func (v *vecTr) stmt(s ast.Stmt) ([]string, error) {
	switch x := s.(type) {
	case *ast.EmptyStmt:
		return nil, nil
	case *ast.BlockStmt:
		var out []string
		for _, t := range x.List {
			ss, err := v.stmt(t)
			if err != nil {
				return nil, err
			}
			out = append(out, ss...)
		}
		return out, nil
	case *ast.BranchStmt:
		if x.Tok == token.BREAK && x.Label == nil {
			return []string{"SBreak"}, nil
		}
	case *ast.IncDecStmt:
		if id, ok := x.X.(*ast.Ident); ok && id.Name != v.bufs {
			op := "IAdd"
			if x.Tok == token.DEC {
				op = "ISub"
			}
			return []string{fmt.Sprintf("SSet %s (%s (IVar %s) (ILit 1))", CoqString(id.Name), op, CoqString(id.Name))}, nil
		}
	case *ast.AssignStmt:
		if len(x.Lhs) != 1 || len(x.Rhs) != 1 {
			break
		}
		// bufs = bufs[e:]
		if v.isBufs(x.Lhs[0]) && x.Tok == token.ASSIGN {
			if se, ok := x.Rhs[0].(*ast.SliceExpr); ok && v.isBufs(se.X) && se.High == nil && se.Max == nil && se.Low != nil {
				e, err := v.iexp(se.Low)
				if err != nil {
					return nil, err
				}
				return []string{fmt.Sprintf("SDrop %s", e)}, nil
			}
			break
		}
		// bufs[0] = bufs[0][e:]
		if v.isHead(x.Lhs[0]) && x.Tok == token.ASSIGN {
			if se, ok := x.Rhs[0].(*ast.SliceExpr); ok && v.isHead(se.X) && se.High == nil && se.Max == nil && se.Low != nil {
				e, err := v.iexp(se.Low)
				if err != nil {
					return nil, err
				}
				return []string{fmt.Sprintf("SAdvHead %s", e)}, nil
			}
			break
		}
		id, ok := x.Lhs[0].(*ast.Ident)
		if !ok || id.Name == v.bufs {
			break
		}
		e, err := v.iexp(x.Rhs[0])
		if err != nil {
			return nil, err
		}
		switch x.Tok {
		case token.DEFINE, token.ASSIGN:
			return []string{fmt.Sprintf("SSet %s %s", CoqString(id.Name), e)}, nil
		case token.ADD_ASSIGN:
			return []string{fmt.Sprintf("SSet %s (IAdd (IVar %s) %s)", CoqString(id.Name), CoqString(id.Name), e)}, nil
		case token.SUB_ASSIGN:
			return []string{fmt.Sprintf("SSet %s (ISub (IVar %s) %s)", CoqString(id.Name), CoqString(id.Name), e)}, nil
		}
	case *ast.IfStmt:
		if x.Init != nil {
			break
		}
		c, err := v.bexp(x.Cond)
		if err != nil {
			return nil, err
		}
		t, err := v.block(x.Body.List)
		if err != nil {
			return nil, err
		}
		el := "[]"
		if x.Else != nil {
			el, err = v.block([]ast.Stmt{x.Else})
			if err != nil {
				return nil, err
			}
		}
		return []string{fmt.Sprintf("SIf %s %s %s", c, t, el)}, nil
	case *ast.ForStmt:
		var out []string
		if x.Init != nil {
			ss, err := v.stmt(x.Init)
			if err != nil {
				return nil, err
			}
			out = append(out, ss...)
		}
		c := "(BLe (ILit 0) (ILit 0))"
		if x.Cond != nil {
			var err error
			c, err = v.bexp(x.Cond)
			if err != nil {
				return nil, err
			}
		}
		body, err := v.block(x.Body.List)
		if err != nil {
			return nil, err
		}
		post := "[]"
		if x.Post != nil {
			post, err = v.block([]ast.Stmt{x.Post})
			if err != nil {
				return nil, err
			}
		}
		return append(out, fmt.Sprintf("SLoop %s %s %s", c, body, post)), nil
	}
	return nil, v.r.Refuse(s.Pos(), "statement in the iovec-advance code of readFromBuffersLinux")
}

func containsCall(n ast.Node, name string) bool {
	found := false
	ast.Inspect(n, func(m ast.Node) bool {
		if ce, ok := m.(*ast.CallExpr); ok {
			if id, ok := ce.Fun.(*ast.Ident); ok && id.Name == name {
				found = true
			}
		}
		return !found
	})
	return found
}

func containsReturn(n ast.Node) bool {
	found := false
	ast.Inspect(n, func(m ast.Node) bool {
		if _, ok := m.(*ast.ReturnStmt); ok {
			found = true
		}
		return !found
	})
	return found
}

func runVecGen(r *Repo) (string, error) {
	fds, err := r.FuncDecls("vecnet")
	if err != nil {
		return "", err
	}
	fd, ok := fds["readFromBuffersLinux"]
	if !ok || fd.Body == nil {
		return "", fmt.Errorf("vecnet: func readFromBuffersLinux not found")
	}
	if fd.Type.Params == nil || len(fd.Type.Params.List) == 0 || len(fd.Type.Params.List[0].Names) != 1 {
		return "", r.Refuse(fd.Pos(), "parameters of readFromBuffersLinux")
	}
	v := &vecTr{r: r, bufs: fd.Type.Params.List[0].Names[0].Name}
	// the receive loop: the outermost for statement containing the recvmsg call
	var loop *ast.ForStmt
	for _, s := range fd.Body.List {
		if fs, ok := s.(*ast.ForStmt); ok && containsCall(fs, "recvmsg") {
			if loop != nil {
				return "", r.Refuse(fs.Pos(), "second receive loop")
			}
			loop = fs
		}
	}
	if loop == nil {
		return "", r.Refuse(fd.Pos(), "no for loop calling recvmsg in readFromBuffersLinux")
	}
	counter := ""
	if as, ok := loop.Init.(*ast.AssignStmt); ok && len(as.Lhs) == 1 {
		if id, ok := as.Lhs[0].(*ast.Ident); ok {
			counter = id.Name
		}
	}
	cur := ""
	var region []ast.Stmt
	for _, s := range loop.Body.List {
		if as, ok := s.(*ast.AssignStmt); ok && containsCall(as, "recvmsg") {
			if cur != "" || len(as.Lhs) < 1 {
				return "", r.Refuse(as.Pos(), "recvmsg call")
			}
			id, ok := as.Lhs[0].(*ast.Ident)
			if !ok {
				return "", r.Refuse(as.Pos(), "recvmsg result")
			}
			cur = id.Name
			if len(region) != 0 {
				return "", r.Refuse(as.Pos(), "buffers are advanced before recvmsg is called")
			}
			continue
		}
		if is, ok := s.(*ast.IfStmt); ok && containsReturn(is) {
			continue // error guard
		}
		if as, ok := s.(*ast.AssignStmt); ok && len(as.Lhs) == 1 && counter != "" {
			if id, ok := as.Lhs[0].(*ast.Ident); ok && id.Name == counter {
				continue // n += int64(cur)
			}
		}
		region = append(region, s)
	}
	if cur == "" {
		return "", r.Refuse(loop.Pos(), "no `cur, err := recvmsg(...)` in the receive loop")
	}
	if containsCall(&ast.BlockStmt{List: region}, "recvmsg") {
		return "", r.Refuse(loop.Pos(), "recvmsg called inside the advance code")
	}
	prog, err := v.block(region)
	if err != nil {
		return "", err
	}
	var b strings.Builder
	b.WriteString("From Coq Require Import ZArith List String.\nFrom P9V Require Import Frame.Imp.\nImport ListNotations.\nOpen Scope string_scope.\nOpen Scope Z_scope.\n\n")
	b.WriteString("(** vecnet/vecnet_linux.go readFromBuffersLinux: what runs after each recvmsg to advance bufs by the bytes it returned *)\n")
	fmt.Fprintf(&b, "Definition vec_cur_name : string := %s.\n", CoqString(cur))
	fmt.Fprintf(&b, "Definition vec_advance : list stmt :=\n  %s.\n", prog)
	return b.String(), nil
}
