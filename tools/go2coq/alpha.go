package main

// Alpha-normalisation of local identifiers, for generators that emit source text (conditions,
// expressions, statement bodies) into their tables: a rename of a local variable, parameter or
// receiver must not change the table.  Locals are renamed positionally (_v0, _v1, ... by order
// of first declaration in the function); selectors' field names, struct-literal keys, labels and
// every non-local identifier are kept.

import (
	"bytes"
	"fmt"
	"go/ast"
	"go/printer"
	"go/token"
	"sort"
)

// LocalNames returns the positional renaming for all identifiers declared inside fd
// (receiver, parameters, results, :=, var, range, type-switch bindings, closure parameters).
func LocalNames(fd *ast.FuncDecl) map[string]string {
	type decl struct {
		name string
		pos  token.Pos
	}
	var ds []decl
	add := func(id *ast.Ident) {
		if id != nil && id.Name != "_" {
			ds = append(ds, decl{id.Name, id.Pos()})
		}
	}
	fields := func(fl *ast.FieldList) {
		if fl == nil {
			return
		}
		for _, f := range fl.List {
			for _, n := range f.Names {
				add(n)
			}
		}
	}
	fields(fd.Recv)
	fields(fd.Type.Params)
	fields(fd.Type.Results)
	if fd.Body != nil {
		ast.Inspect(fd.Body, func(n ast.Node) bool {
			switch x := n.(type) {
			case *ast.AssignStmt:
				if x.Tok == token.DEFINE {
					for _, l := range x.Lhs {
						if id, ok := l.(*ast.Ident); ok {
							add(id)
						}
					}
				}
			case *ast.ValueSpec:
				for _, id := range x.Names {
					add(id)
				}
			case *ast.RangeStmt:
				if x.Tok == token.DEFINE {
					if id, ok := x.Key.(*ast.Ident); ok {
						add(id)
					}
					if id, ok := x.Value.(*ast.Ident); ok {
						add(id)
					}
				}
			case *ast.FuncLit:
				fields(x.Type.Params)
				fields(x.Type.Results)
			case *ast.TypeSwitchStmt:
				if as, ok := x.Assign.(*ast.AssignStmt); ok && as.Tok == token.DEFINE {
					if id, ok := as.Lhs[0].(*ast.Ident); ok {
						add(id)
					}
				}
			}
			return true
		})
	}
	sort.SliceStable(ds, func(i, j int) bool { return ds[i].pos < ds[j].pos })
	m := map[string]string{}
	for _, d := range ds {
		if _, ok := m[d.name]; !ok {
			m[d.name] = fmt.Sprintf("_v%d", len(m))
		}
	}
	return m
}

// AlphaPrint prints node (an expression, statement or block inside fd) with fd's locals renamed.
// The AST is not modified.
func AlphaPrint(fset *token.FileSet, fd *ast.FuncDecl, node ast.Node) string {
	names := LocalNames(fd)
	skip := map[*ast.Ident]bool{}
	ast.Inspect(node, func(n ast.Node) bool {
		switch x := n.(type) {
		case *ast.SelectorExpr:
			skip[x.Sel] = true
		case *ast.KeyValueExpr:
			if id, ok := x.Key.(*ast.Ident); ok {
				skip[id] = true // struct literal field name (a local used as a map key is rare; accepted imprecision)
			}
		case *ast.LabeledStmt:
			skip[x.Label] = true
		case *ast.BranchStmt:
			if x.Label != nil {
				skip[x.Label] = true
			}
		}
		return true
	})
	var saved []struct {
		id   *ast.Ident
		name string
	}
	ast.Inspect(node, func(n ast.Node) bool {
		if id, ok := n.(*ast.Ident); ok && !skip[id] {
			if nn, ok := names[id.Name]; ok {
				saved = append(saved, struct {
					id   *ast.Ident
					name string
				}{id, id.Name})
				id.Name = nn
			}
		}
		return true
	})
	var buf bytes.Buffer
	printer.Fprint(&buf, fset, node)
	for _, s := range saved {
		s.id.Name = s.name
	}
	return buf.String()
}
