package main

// RefsGen (C05/C08): event skeletons of the functions that implement reference
// counting and the path-tree notifications - fidRef.DecRef, notifyDelete,
// fidRef.markChildDeleted, notifyNameChange, fidRef.renameChildTo,
// connState.stop, LookupFID, InsertFID, DeleteFID (p9/server.go) and doWalk
// (p9/handlers.go).
//
// A skeleton is the ordered list of the function's EVENTS: calls of the tracked
// reference / tree / File operations (Close, Renamed, IncRef, DecRef, TryIncRef,
// addChild, removeChild, removeWithName, ...), constructions of a fidRef and
// assignments of its parent / file / pathNode / xattrOf fields.  Each event
// carries its receiver and arguments as access paths rooted at the receiver
// ($r) and parameters ($p0..), the PATH CONDITION under which it is reached
// (the guards of the enclosing ifs, and the negation of every earlier guard
// whose branch ends in a return), and its context (inside which closure passed
// to which call, deferred, inside which loop).  Results of earlier events are
// named #k (k = index of the event in the function).
//
// The skeleton is semantic rather than textual: locals are substituted by what
// they were assigned (renaming one changes nothing), statements that contain no
// event and no return vanish (error wrapping, appends, comments), and only the
// order of events and their guards remain.  Anything the walker does not
// understand inside these functions is refused with file:line.
//
// Emits coq/gen/RefsGen.v:  refs_skeleton : list (string * list ev), with
// ev = (name, receiver, args, path condition, context).

import (
	"fmt"
	"go/ast"
	"go/token"
	"sort"
	"strings"
)

func init() { register(Generator{Name: "RefsGen", Run: runRefsGen}) }

var refsTracked = map[string]bool{
	"Close": true, "Renamed": true, "IncRef": true, "DecRef": true, "TryIncRef": true,
	"addChild": true, "addChildLocked": true, "removeChild": true, "removeWithName": true,
	"addPathNodeFor": true, "pathNodeFor": true, "nameFor": true,
	"notifyNameChange": true, "notifyDelete": true, "markChildDeleted": true,
	"forEachChildRef": true, "forEachChildNode": true, "walkOne": true,
	"safelyRead": true, "safelyWrite": true, "safelyGlobal": true,
	"isDeleted": true, "hasParent": true, "AddInt64": true, "StoreUint32": true,
	"Wait": true, "checkSafeName": true, "Lock": true, "Unlock": true, "delete": true,
}

var refsFields = map[string]bool{"parent": true, "file": true, "pathNode": true, "xattrOf": true}

type refsEv struct {
	name, recv string
	args       []string
	cond, ctx  []string
}

type refsWalker struct {
	r     *Repo
	evs   []refsEv
	env   map[string]string
	cond  []string
	ctx   []string
	nvar  int
	exits [][]string // path conditions of the return statements seen so far (of the current function body / closure)
	// loop-carried variables (read before written in a for body): named ~<value at loop entry>
	carried map[string]bool
}

func (w *refsWalker) emit(name, recv string, args []string) int {
	w.evs = append(w.evs, refsEv{name, recv, args, append([]string{}, w.cond...), append([]string{}, w.ctx...)})
	return len(w.evs) - 1
}

// expr normalises an expression; events inside it are emitted in evaluation order.
func (w *refsWalker) expr(e ast.Expr) (string, error) {
	switch x := e.(type) {
	case nil:
		return "", nil
	case *ast.Ident:
		if v, ok := w.env[x.Name]; ok {
			return v, nil
		}
		switch x.Name {
		case "nil", "true", "false":
			return x.Name, nil
		}
		return "?", nil
	case *ast.BasicLit:
		return x.Value, nil
	case *ast.ParenExpr:
		return w.expr(x.X)
	case *ast.SelectorExpr:
		b, err := w.expr(x.X)
		if err != nil {
			return "", err
		}
		if b == "?" {
			if id, ok := x.X.(*ast.Ident); ok { // package-qualified name (linux.EINVAL, atomic.X)
				if _, local := w.env[id.Name]; !local {
					return id.Name + "." + x.Sel.Name, nil
				}
			}
			return "?", nil
		}
		return b + "." + x.Sel.Name, nil
	case *ast.StarExpr:
		return w.expr(x.X)
	case *ast.UnaryExpr:
		b, err := w.expr(x.X)
		if err != nil {
			return "", err
		}
		if x.Op == token.AND {
			return b, nil
		}
		return x.Op.String() + b, nil
	case *ast.BinaryExpr:
		a, err := w.expr(x.X)
		if err != nil {
			return "", err
		}
		c0 := w.cond
		switch x.Op { // the right operand is evaluated only if ...
		case token.LAND:
			w.cond = append(append([]string{}, c0...), refsSplit(a)...)
		case token.LOR:
			w.cond = append(append([]string{}, c0...), refsNeg(a))
		}
		b, err := w.expr(x.Y)
		w.cond = c0
		if err != nil {
			return "", err
		}
		return "(" + a + x.Op.String() + b + ")", nil
	case *ast.IndexExpr:
		a, err := w.expr(x.X)
		if err != nil {
			return "", err
		}
		return a + "[]", nil
	case *ast.SliceExpr:
		a, err := w.expr(x.X)
		if err != nil {
			return "", err
		}
		return a + "[:]", nil
	case *ast.CompositeLit:
		return w.composite(x)
	case *ast.CallExpr:
		return w.call(x)
	case *ast.FuncLit:
		return "", w.r.Refuse(x.Pos(), "function literal outside a tracked call")
	}
	return "", w.r.Refuse(e.Pos(), "expression %T", e)
}

func (w *refsWalker) composite(cl *ast.CompositeLit) (string, error) {
	t := "?"
	if id, ok := cl.Type.(*ast.Ident); ok {
		t = id.Name
	}
	if t != "fidRef" {
		return "?", nil
	}
	var fs []string
	for _, el := range cl.Elts {
		kv, ok := el.(*ast.KeyValueExpr)
		if !ok {
			return "", w.r.Refuse(el.Pos(), "fidRef literal without field names")
		}
		k := kv.Key.(*ast.Ident).Name
		if !refsFields[k] {
			continue
		}
		v, err := w.expr(kv.Value)
		if err != nil {
			return "", err
		}
		fs = append(fs, k+"="+v)
	}
	sort.Strings(fs)
	k := w.emit("new fidRef", "", fs)
	return fmt.Sprintf("#%d", k), nil
}

func (w *refsWalker) call(c *ast.CallExpr) (string, error) {
	name, recv := "", ""
	switch f := c.Fun.(type) {
	case *ast.Ident:
		name = f.Name
	case *ast.SelectorExpr:
		name = f.Sel.Name
		rv, err := w.expr(f.X)
		if err != nil {
			return "", err
		}
		recv = rv
		if id, ok := f.X.(*ast.Ident); ok && rv == "?" {
			if _, local := w.env[id.Name]; !local {
				recv = id.Name // a package
			}
		}
	case *ast.FuncLit: // func() { ... }()
		if err := w.block(f.Body.List); err != nil {
			return "", err
		}
		return "?", nil
	default:
		return "", w.r.Refuse(c.Pos(), "call of %T", c.Fun)
	}
	if !refsTracked[name] {
		// an untracked call: its arguments may still contain events
		var uargs []string
		for _, a := range c.Args {
			if _, isFn := a.(*ast.FuncLit); isFn {
				return "", w.r.Refuse(a.Pos(), "closure passed to untracked call %s", name)
			}
			v, err := w.expr(a)
			if err != nil {
				return "", err
			}
			uargs = append(uargs, v)
		}
		if recv == "" && (name == "append" || name == "make" || name == "new") {
			return "?", nil
		}
		return recv + sep(recv) + name + "(" + strings.Join(uargs, ",") + ")", nil
	}
	var args []string
	var fn *ast.FuncLit
	for _, a := range c.Args {
		if fl, ok := a.(*ast.FuncLit); ok {
			if fn != nil {
				return "", w.r.Refuse(a.Pos(), "two closures in one call")
			}
			fn = fl
			args = append(args, "<fn>")
			continue
		}
		v, err := w.expr(a)
		if err != nil {
			return "", err
		}
		args = append(args, v)
	}
	k := w.emit(name, recv, args)
	if fn != nil {
		saved := map[string]string{}
		i := 0
		for _, p := range fn.Type.Params.List {
			for _, n := range p.Names {
				if old, ok := w.env[n.Name]; ok {
					saved[n.Name] = old
				} else {
					saved[n.Name] = "\x00"
				}
				w.env[n.Name] = fmt.Sprintf("$%d.%d", k, i)
				i++
			}
		}
		if fn.Type.Results != nil {
			j := 0
			for _, p := range fn.Type.Results.List {
				for _, n := range p.Names {
					if old, ok := w.env[n.Name]; ok {
						saved[n.Name] = old
					} else {
						saved[n.Name] = "\x00"
					}
					w.env[n.Name] = fmt.Sprintf("$%d.r%d", k, j)
					j++
				}
			}
		}
		w.ctx = append(w.ctx, fmt.Sprintf("fn#%d:%s", k, name))
		c0, ex0 := w.cond, w.exits
		w.exits = nil
		err := w.block(fn.Body.List)
		w.cond, w.exits = c0, ex0 // a return inside the closure ends the closure only
		w.ctx = w.ctx[:len(w.ctx)-1]
		for n, old := range saved {
			if old == "\x00" {
				delete(w.env, n)
			} else {
				w.env[n] = old
			}
		}
		if err != nil {
			return "", err
		}
	}
	return fmt.Sprintf("#%d", k), nil
}

func sep(recv string) string {
	if recv == "" {
		return ""
	}
	return "."
}

// refsTop splits "(X op Y)" at its top-level operator (one of ops); ok=false if c has another shape.
func refsTop(c string, ops ...string) (x, op, y string, ok bool) {
	if len(c) < 2 || c[0] != '(' || c[len(c)-1] != ')' {
		return
	}
	depth := 0
	for i := 1; i < len(c)-1; i++ {
		switch c[i] {
		case '(', '[':
			depth++
		case ')', ']':
			depth--
			if depth < 0 {
				return
			}
		}
		if depth != 0 {
			continue
		}
		for _, o := range ops {
			if strings.HasPrefix(c[i:], o) {
				return c[1:i], o, c[i+len(o) : len(c)-1], true
			}
		}
	}
	return
}

// refsNeg: negation, pushed through == and != (so that an inverted guard with an early return and the
// nested form give the same path conditions)
func refsNeg(c string) string {
	if strings.HasPrefix(c, "!") {
		return c[1:]
	}
	if x, op, y, ok := refsTop(c, "==", "!="); ok {
		if op == "==" {
			return "(" + x + "!=" + y + ")"
		}
		return "(" + x + "==" + y + ")"
	}
	return "!" + c
}

// refsSplit: a conjunction as the list of its conjuncts (if a && b {..} = if a { if b {..} })
func refsSplit(c string) []string {
	if x, _, y, ok := refsTop(c, "&&"); ok {
		return append(refsSplit(x), refsSplit(y)...)
	}
	return []string{c}
}

// refsNegList: the negation of a condition as path-condition entries (a single entry)
func refsNegList(c string) []string { return []string{refsNeg(c)} }

// terminates: does the statement list always end in a return / panic?
func refsTerminates(l []ast.Stmt) bool {
	if len(l) == 0 {
		return false
	}
	switch x := l[len(l)-1].(type) {
	case *ast.ReturnStmt:
		return true
	case *ast.ExprStmt:
		if c, ok := x.X.(*ast.CallExpr); ok {
			if id, ok := c.Fun.(*ast.Ident); ok && id.Name == "panic" {
				return true
			}
		}
	case *ast.BlockStmt:
		return refsTerminates(x.List)
	case *ast.IfStmt:
		if x.Else == nil {
			return false
		}
		eb, ok := x.Else.(*ast.BlockStmt)
		if !ok {
			return refsTerminates([]ast.Stmt{x.Else}) && refsTerminates(x.Body.List)
		}
		return refsTerminates(x.Body.List) && refsTerminates(eb.List)
	}
	return false
}

func (w *refsWalker) assign(lhs []ast.Expr, rhs []ast.Expr, pos token.Pos, define bool) error {
	if len(rhs) == 1 && len(lhs) > 1 {
		v, err := w.expr(rhs[0])
		if err != nil {
			return err
		}
		if _, isIndex := rhs[0].(*ast.IndexExpr); isIndex && len(lhs) == 2 { // x, ok := m[k]
			for i, l := range lhs {
				if id, ok := l.(*ast.Ident); ok && id.Name != "_" {
					w.env[id.Name] = []string{v, "has(" + v + ")"}[i]
				}
			}
			return nil
		}
		for i, l := range lhs {
			if id, ok := l.(*ast.Ident); ok && id.Name != "_" {
				if w.carried[id.Name] && !define {
					w.emit("carry", w.env[id.Name], []string{fmt.Sprintf("%s.%d", v, i)})
					continue
				}
				if strings.HasPrefix(v, "#") {
					w.env[id.Name] = fmt.Sprintf("%s.%d", v, i)
				} else {
					w.env[id.Name] = "?"
				}
			}
		}
		return nil
	}
	if len(lhs) != len(rhs) {
		return w.r.Refuse(pos, "assignment shape")
	}
	for i := range lhs {
		// err = fmt.Errorf("...: %w", err) keeps what err stands for
		if c, ok := rhs[i].(*ast.CallExpr); ok {
			if se, ok := c.Fun.(*ast.SelectorExpr); ok && se.Sel.Name == "Errorf" {
				continue
			}
			if id, ok := c.Fun.(*ast.Ident); ok && id.Name == "append" {
				continue
			}
		}
		v, err := w.expr(rhs[i])
		if err != nil {
			return err
		}
		switch l := lhs[i].(type) {
		case *ast.Ident:
			if w.carried[l.Name] && !define {
				w.emit("carry", w.env[l.Name], []string{v})
			} else if l.Name != "_" {
				w.env[l.Name] = v
			}
		case *ast.SelectorExpr:
			if refsFields[l.Sel.Name] {
				b, err := w.expr(l.X)
				if err != nil {
					return err
				}
				w.emit("set "+l.Sel.Name, b, []string{v})
			}
		case *ast.IndexExpr: // cs.fids[fid] = x
			b, err := w.expr(l.X)
			if err != nil {
				return err
			}
			if strings.HasSuffix(b, ".fids") {
				w.emit("store", b, []string{v})
			}
		case *ast.StarExpr:
			// *held = append(*held, ref): not an event
		default:
			return w.r.Refuse(pos, "assignment target %T", l)
		}
	}
	return nil
}

func (w *refsWalker) block(l []ast.Stmt) error {
	for _, s := range l {
		if err := w.stmt(s); err != nil {
			return err
		}
	}
	return nil
}

func (w *refsWalker) stmt(s ast.Stmt) error {
	switch x := s.(type) {
	case *ast.ExprStmt:
		_, err := w.expr(x.X)
		return err
	case *ast.AssignStmt:
		return w.assign(x.Lhs, x.Rhs, x.Pos(), x.Tok == token.DEFINE)
	case *ast.DeclStmt:
		gd := x.Decl.(*ast.GenDecl)
		for _, sp := range gd.Specs {
			vs, ok := sp.(*ast.ValueSpec)
			if !ok {
				return w.r.Refuse(x.Pos(), "declaration")
			}
			for i, n := range vs.Names {
				if i < len(vs.Values) {
					v, err := w.expr(vs.Values[i])
					if err != nil {
						return err
					}
					w.env[n.Name] = v
				} else {
					w.env[n.Name] = fmt.Sprintf("var%d", w.nvar)
					w.nvar++
				}
			}
		}
		return nil
	case *ast.IncDecStmt:
		return nil
	case *ast.BlockStmt:
		return w.block(x.List)
	case *ast.ReturnStmt:
		for _, r := range x.Results {
			if _, err := w.expr(r); err != nil {
				return err
			}
		}
		w.exits = append(w.exits, append([]string{}, w.cond...))
		return nil
	case *ast.DeferStmt:
		w.ctx = append(w.ctx, "defer")
		_, err := w.call(x.Call)
		w.ctx = w.ctx[:len(w.ctx)-1]
		return err
	case *ast.IfStmt:
		if x.Init != nil {
			if err := w.stmt(x.Init); err != nil {
				return err
			}
		}
		c, err := w.expr(x.Cond)
		if err != nil {
			return err
		}
		c0 := w.cond
		e0 := len(w.exits)
		w.cond = append(append([]string{}, c0...), refsSplit(c)...)
		if err := w.block(x.Body.List); err != nil {
			return err
		}
		e1 := len(w.exits)
		thenRet := refsTerminates(x.Body.List)
		elseRet := false
		w.cond = append(append([]string{}, c0...), refsNegList(c)...)
		if x.Else != nil {
			if err := w.stmt(x.Else); err != nil {
				return err
			}
			elseRet = refsTerminates([]ast.Stmt{x.Else})
		}
		next := append([]string{}, c0...)
		switch {
		case thenRet && !elseRet:
			next = append(next, refsNegList(c)...)
		case elseRet && !thenRet:
			next = append(next, refsSplit(c)...)
		}
		// returns inside a branch that does not always return: what follows runs only if none was taken
		for i := e0; i < len(w.exits); i++ {
			if (i < e1 && thenRet) || (i >= e1 && elseRet) {
				continue
			}
			ex := w.exits[i]
			if len(ex) >= len(c0) {
				next = append(next, "!ret["+strings.Join(ex[len(c0):], "&")+"]")
			}
		}
		w.cond = next
		return nil
	case *ast.RangeStmt:
		over, err := w.expr(x.X)
		if err != nil {
			return err
		}
		for i, e := range []ast.Expr{x.Key, x.Value} {
			if id, ok := e.(*ast.Ident); ok && id.Name != "_" {
				w.env[id.Name] = fmt.Sprintf("each%d(%s)", i, over)
			}
		}
		w.ctx = append(w.ctx, "range "+over)
		c0 := w.cond
		err = w.block(x.Body.List)
		w.cond = c0
		w.ctx = w.ctx[:len(w.ctx)-1]
		return err
	case *ast.ForStmt:
		if x.Init != nil {
			if as, ok := x.Init.(*ast.AssignStmt); ok {
				for _, l := range as.Lhs {
					if id, ok := l.(*ast.Ident); ok {
						w.env[id.Name] = "i"
					}
				}
			}
		}
		for _, n := range refsCarried(x.Body) {
			if v, ok := w.env[n]; ok && !w.carried[n] {
				w.carried[n] = true
				w.env[n] = "~" + v
			}
		}
		c := ""
		if x.Cond != nil {
			v, err := w.expr(x.Cond)
			if err != nil {
				return err
			}
			c = v
		}
		w.ctx = append(w.ctx, "for "+c)
		c0 := w.cond
		err := w.block(x.Body.List)
		w.cond = c0
		w.ctx = w.ctx[:len(w.ctx)-1]
		return err
	}
	return w.r.Refuse(s.Pos(), "statement %T", s)
}

// refsCarried: identifiers that a for body reads before it assigns them (plain =), in source order
// with right-hand sides before left-hand sides: the loop-carried variables.
func refsCarried(body *ast.BlockStmt) []string {
	state := map[string]int{} // 1 read first, 2 written first
	var order []string
	shadow := map[string]int{}
	var visit func(n ast.Node) bool
	visit = func(n ast.Node) bool {
		switch x := n.(type) {
		case *ast.FuncLit:
			var own []string
			for _, fl := range []*ast.FieldList{x.Type.Params, x.Type.Results} {
				if fl == nil {
					continue
				}
				for _, f := range fl.List {
					for _, nm := range f.Names {
						own = append(own, nm.Name)
					}
				}
			}
			for _, nm := range own {
				shadow[nm]++
			}
			ast.Inspect(x.Body, visit)
			for _, nm := range own {
				shadow[nm]--
			}
			return false
		case *ast.AssignStmt:
			for _, r := range x.Rhs {
				ast.Inspect(r, visit)
			}
			for _, l := range x.Lhs {
				if id, ok := l.(*ast.Ident); ok {
					if shadow[id.Name] > 0 {
						continue
					}
					if state[id.Name] == 0 {
						state[id.Name] = 2
					} else if state[id.Name] == 1 && x.Tok == token.ASSIGN {
						state[id.Name] = 3
					}
				} else {
					ast.Inspect(l, visit)
				}
			}
			return false
		case *ast.ValueSpec: // declared inside the loop body: not carried
			for _, v := range x.Values {
				ast.Inspect(v, visit)
			}
			for _, nm := range x.Names {
				if state[nm.Name] == 0 {
					state[nm.Name] = 2
				}
			}
			return false
		case *ast.Ident:
			if shadow[x.Name] == 0 && state[x.Name] == 0 {
				state[x.Name] = 1
				order = append(order, x.Name)
			}
		}
		return true
	}
	ast.Inspect(body, visit)
	var out []string
	for _, n := range order {
		if state[n] == 3 {
			out = append(out, n)
		}
	}
	return out
}

func refsCoqList(l []string) string {
	var q []string
	for _, s := range l {
		q = append(q, CoqString(s))
	}
	return "[" + strings.Join(q, "; ") + "]"
}

func runRefsGen(r *Repo) (string, error) {
	decls, err := r.FuncDecls("p9")
	if err != nil {
		return "", err
	}
	fns := []string{"fidRef.DecRef", "notifyDelete", "fidRef.markChildDeleted", "notifyNameChange", "fidRef.renameChildTo", "connState.stop", "doWalk",
		"connState.LookupFID", "connState.InsertFID", "connState.DeleteFID"}
	var b strings.Builder
	b.WriteString("From Coq Require Import String List.\nImport ListNotations.\nOpen Scope string_scope.\n\n")
	b.WriteString("(* event = (name, receiver, arguments, path condition, context) *)\n")
	b.WriteString("Definition ev := (string * string * list string * list string * list string)%type.\n\n")
	b.WriteString("Definition refs_skeleton : list (string * list ev) := [\n")
	for fi, key := range fns {
		fd, ok := decls[key]
		if !ok || fd.Body == nil {
			return "", fmt.Errorf("p9: function %s not found", key)
		}
		w := &refsWalker{r: r, env: map[string]string{}, carried: map[string]bool{}}
		if fd.Recv != nil {
			for _, f := range fd.Recv.List {
				for _, n := range f.Names {
					w.env[n.Name] = "$r"
				}
			}
		}
		i := 0
		for _, f := range fd.Type.Params.List {
			for _, n := range f.Names {
				w.env[n.Name] = fmt.Sprintf("$p%d", i)
				i++
			}
		}
		if fd.Type.Results != nil {
			for _, f := range fd.Type.Results.List {
				for _, n := range f.Names {
					w.env[n.Name] = "zero"
				}
			}
		}
		if err := w.block(fd.Body.List); err != nil {
			return "", err
		}
		fmt.Fprintf(&b, "  (%s, [\n", CoqString(key))
		for k, e := range w.evs {
			sep := ";"
			if k == len(w.evs)-1 {
				sep = ""
			}
			fmt.Fprintf(&b, "    (* #%d *) (%s, %s, %s, %s, %s)%s\n", k, CoqString(e.name), CoqString(e.recv), refsCoqList(e.args), refsCoqList(e.cond), refsCoqList(e.ctx), sep)
		}
		if fi == len(fns)-1 {
			b.WriteString("  ])\n")
		} else {
			b.WriteString("  ]);\n")
		}
	}
	b.WriteString("].\n")
	return b.String(), nil
}
