#!/usr/bin/env python3
"""Regenerates MANIFEST.json from props/Cxx.py metadata (ID, LEVEL, LEVEL_TEXT, LEVEL_NOTE, TECHNIQUE, DESIGN_REF)
and props/not_applicable.json.  Run after adding or changing a property script."""
import json, os, sys, glob
sys.path.insert(0, os.path.join(os.path.dirname(os.path.abspath(__file__)), "..", "lib"))
import vlib

V = vlib.VERIF
checks = []
claimed = set()
for p in sorted(glob.glob(os.path.join(V, "props", "C*.py"))):
    pid = os.path.basename(p)[:-3]
    m = vlib.load_prop(pid)
    if getattr(m, "DISABLED", False):
        continue
    claimed.add(pid)
    checks.append({
        "property_id": pid,
        "quick_cmd": "./check %s --tier quick" % pid,
        "thorough_cmd": "./check %s --tier thorough" % pid,
        "evidence_file": "/verif/evidence/%s.json" % pid,
        "replay_cmd_template": "./check %s --replay {path}" % pid,
        "engine": "coq-proof+go-differential",
        "level_claimed": {"category": getattr(m, "LEVEL", "proof"), "text": m.LEVEL_TEXT, "design_ref": "DESIGN.md section " + getattr(m, "DESIGN_REF", "6/" + pid)},
        "level_note": m.LEVEL_NOTE,
        "technique": m.TECHNIQUE,
    })
props = [json.loads(l)["id"] for l in open(os.path.join(V, "properties.jsonl"))]
na_path = os.path.join(V, "props", "not_applicable.json")
na = json.load(open(na_path)) if os.path.exists(na_path) else {}
not_applicable = []
for pid in props:
    if pid not in claimed:
        not_applicable.append({"property_id": pid, "reason": na.get(pid, "not yet claimed: no check has been built for this property in this tree")})
man = {
    "version": 1,
    "setup_cmd": "./setup.sh",
    "hooks": {
        "guard": "verif",
        "enable": "none needed: harness files are injected as in-package _test.go files with `go test -overlay` (no file under /repo is created or changed); the build tag `verif` is reserved and unused",
        "baseline_off_cmd": "/verif/tools/baseline.sh",
        "source_commits": [],
        "add_only": True,
    },
    "engines": [{
        "name": "coq-proof+go-differential",
        "path": "/verif/check",
        "serves_properties": sorted(claimed),
        "kind_free_text": "Coq 8.16.1 theorems over Gallina models; models regenerated from source by tools/go2coq (coq/gen) or hand-written and tied by differential cases (harness/ -> coq/cases/*.v, vm_compute)",
    }],
    "checks": checks,
    "notes": "See DESIGN.md. known_findings.txt lists fixed defects (fix: commits in /repo) and recorded findings. Checks rebuild from /repo's working tree on every run.",
    "not_applicable": not_applicable,
}
with open(os.path.join(V, "MANIFEST.json"), "w") as f:
    json.dump(man, f, indent=1)
print("MANIFEST.json: %d checks, %d not claimed" % (len(checks), len(not_applicable)))
