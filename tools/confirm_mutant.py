#!/usr/bin/env python3
"""confirm_mutant.py Cxx k  — independently confirms a sub-agent's seeded change /tmp/mut/Cxx/mk.{diff,json}, mk_demo_test.go:
without the patch the demonstration passes; with it the code builds, the existing suite passes and the
demonstration fails.  On success stores /verif/seeded/Cxx-mk/{patch.diff, demo_test.go, meta.json}."""
import json, os, shutil, subprocess, sys, re, time

ENV = dict(os.environ, GOFLAGS="-mod=mod", GOPROXY="off", GOSUMDB="off", GOTOOLCHAIN="local")
SUITE = ["./p9", "./vecnet", "./linux", "./fsimpl/composefs", "./fsimpl/localfs", "./fsimpl/qids", "./fsimpl/staticfs"]


def sh(cmd, cwd, timeout=900):
    try:
        p = subprocess.run(cmd, cwd=cwd, env=ENV, stdout=subprocess.PIPE, stderr=subprocess.STDOUT, timeout=timeout, shell=isinstance(cmd, str))
        return p.returncode, p.stdout.decode("utf-8", "replace")
    except subprocess.TimeoutExpired:
        return 124, "timeout"


def main():
    pid, k = sys.argv[1], sys.argv[2]
    src = "/tmp/mut/%s" % pid
    meta = json.load(open("%s/m%s.json" % (src, k)))
    wt = "/root/scratch/confirm/%s-m%s" % (pid, k)
    shutil.rmtree(wt, ignore_errors=True)
    os.makedirs(os.path.dirname(wt), exist_ok=True)
    subprocess.run(["git", "-C", "/repo", "worktree", "prune"])
    subprocess.run(["git", "-C", "/repo", "worktree", "add", "-q", "--detach", wt, "HEAD"], check=True)
    ran = []
    ok = False
    try:
        pkgdir = meta.get("demo_package_dir", "p9").strip("/").replace("/tmp/mut/%s/wt/" % pid, "")
        pkgdir = re.sub(r"/[^/]*_test\.go$", "", pkgdir)
        pkgdir = pkgdir.split()[0].rstrip(";,:")  # some agents append prose
        if not os.path.isdir(os.path.join(wt, pkgdir)):
            for cand in ("p9", "vecnet", "fsimpl/localfs", "fsimpl/qids", "fsimpl/staticfs", "fsimpl/composefs", "linux"):
                if cand in meta.get("demo_package_dir", "") or cand in (meta.get("demo_run_cmd") or ""):
                    pkgdir = cand
                    break
        demo_dst = os.path.join(wt, pkgdir, "zz_demo_test.go")
        shutil.copy("%s/m%s_demo_test.go" % (src, k), demo_dst)
        src_txt = open(demo_dst).read()
        tests = re.findall(r"^func (Test\w+)\(", src_txt, re.M)
        runre = "^(%s)$" % "|".join(tests)
        race = "-race" in (meta.get("demo_run_cmd") or "")
        cmd = "go test -vet=off -count=1 %s -timeout 300s -run '%s' ./%s" % ("-race" if race else "", runre, pkgdir)
        env_note = ""
        if race:
            ENV["CGO_ENABLED"] = "1"
        # 1. without the patch: demo passes (3x)
        for i in range(3):
            rc, out = sh(cmd, wt)
            ran.append("unpatched: %s -> rc %d" % (cmd, rc))
            if rc != 0:
                print("FAIL: demo does not pass on the unpatched tree\n" + out[-1500:])
                return 1
        # 2. with the patch
        rc, out = sh(["git", "apply", "%s/m%s.diff" % (src, k)], wt)
        if rc != 0:
            print("FAIL: patch does not apply\n" + out)
            return 1
        rc, out = sh("go build ./...", wt)
        ran.append("patched: go build ./... -> rc %d" % rc)
        if rc != 0:
            print("FAIL: does not build\n" + out[-1500:])
            return 1
        os.rename(demo_dst, demo_dst + ".off")
        rc, out = sh("go test -vet=off -count=1 " + " ".join(SUITE), wt)
        ran.append("patched: existing suite -> rc %d" % rc)
        if rc != 0:
            print("FAIL: existing suite fails with the patch\n" + out[-1500:])
            return 1
        os.rename(demo_dst + ".off", demo_dst)
        fails = 0
        for i in range(3):
            rc, out = sh(cmd, wt)
            ran.append("patched: %s -> rc %d" % (cmd, rc))
            fails += rc != 0
        if fails == 0:
            print("FAIL: demo passes with the patch")
            return 1
        d = "/verif/seeded/%s-m%s" % (pid, k)
        os.makedirs(d, exist_ok=True)
        shutil.copy("%s/m%s.diff" % (src, k), d + "/patch.diff")
        shutil.copy("%s/m%s_demo_test.go" % (src, k), d + "/demo_test.go")
        out_meta = {"property": pid, "origin": "independent sub-agent given only the property text and a scratch worktree",
                    "summary": meta.get("summary"), "needs_to_manifest": meta.get("needs_to_manifest"),
                    "files_touched": meta.get("files_touched"), "demo_package_dir": pkgdir, "demo_tests": tests, "demo_needs_race": race,
                    "why_existing_tests_pass": meta.get("why_existing_tests_pass"),
                    "confirmed_by_lead": ran + ["demo failed in %d of 3 patched runs" % fails], "checks": [pid]}
        json.dump(out_meta, open(d + "/meta.json", "w"), indent=1)
        print("CONFIRMED %s m%s (demo failed %d/3 with patch) -> %s" % (pid, k, fails, d))
        ok = True
        return 0
    finally:
        subprocess.run(["git", "-C", "/repo", "worktree", "remove", "--force", wt])
        shutil.rmtree(wt, ignore_errors=True)


if __name__ == "__main__":
    sys.exit(main())
