#!/usr/bin/env python3
"""Runs every registered check (MANIFEST.json) and validates the evidence it wrote.  usage: run_all.py [--tier quick] [-j 4] [Cxx ...]"""
import argparse, json, os, subprocess, sys, time
from concurrent.futures import ThreadPoolExecutor
V = os.path.dirname(os.path.dirname(os.path.abspath(__file__)))
ap = argparse.ArgumentParser(); ap.add_argument("ids", nargs="*"); ap.add_argument("--tier", default="quick"); ap.add_argument("-j", type=int, default=4)
a = ap.parse_args()
man = json.load(open(V + "/MANIFEST.json"))
checks = [c for c in man["checks"] if not a.ids or c["property_id"] in a.ids]
def run(c):
    t = time.time()
    cmd = c["quick_cmd"] if a.tier == "quick" else c.get("thorough_cmd", c["quick_cmd"])
    ev = os.path.join(V, "evidence", os.path.basename(c["evidence_file"]))   # relative to this checkout (snapshots/worktrees)
    try: os.unlink(ev)
    except OSError: pass
    p = subprocess.run(cmd, shell=True, cwd=V, stdout=subprocess.PIPE, stderr=subprocess.STDOUT)
    out = p.stdout.decode("utf-8", "replace")
    valid = subprocess.run(["python3-vt", "-c", "import json,jsonschema,sys; jsonschema.validate(json.load(open(sys.argv[1])), json.load(open('/root/.vp/EVIDENCE.schema.json')))", ev],
                           stdout=subprocess.PIPE, stderr=subprocess.STDOUT)
    return c["property_id"], p.returncode, round(time.time() - t, 1), valid.returncode == 0, [l for l in out.split("\n") if l.startswith(("VIOLATION", "KNOWN-FINDING"))][:3], out[-400:] if p.returncode else ""
bad = 0
with ThreadPoolExecutor(max_workers=a.j) as ex:
    for pid, rc, wall, valid, lines, tail in ex.map(run, checks):
        print("%s rc=%d wall=%6.1fs evidence_valid=%s %s" % (pid, rc, wall, valid, " | ".join(lines)), flush=True)
        if rc or not valid:
            bad += 1
            print("    " + tail.replace("\n", "\n    "))
print("%d checks, %d need attention" % (len(checks), bad))
sys.exit(1 if bad else 0)
