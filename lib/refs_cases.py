"""Observation records of the C05/C08 harnesses (harness/p9/vhfs_driver_test.go) -> Coq terms of Refs/Cases.v."""
import json
import vlib
from vlib import coq_bool


def nlist(l):
    return "[" + "; ".join(str(x) for x in (l or [])) + "]"


def opt(n):
    return "None" if n == 0 else "(Some %d)" % (n - 1)


def call(k):
    t, a = k[0], k[1:]
    if t == 0:
        return "BAttach %d" % a[0]
    if t == 1:
        return "BWalk %d %s %d" % (a[0], opt(a[1]), a[2])
    if t == 2:
        return "BWalkGetAttr %d %s %d" % (a[0], opt(a[1]), a[2])
    if t == 3:
        return "BGetAttr %d" % a[0]
    if t == 4:
        return "BOpen %d %d" % (a[0], a[1])
    if t == 5:
        return "BCreate %d %d %d" % tuple(a)
    if t == 6:
        return "BMk %d %d %d" % tuple(a)
    if t == 7:
        return "BLink %d %d %d" % tuple(a)
    if t == 8:
        return "BUnlinkAt %d %d" % tuple(a)
    if t == 9:
        return "BRenameAt %d %d %d %d" % tuple(a)
    if t == 10:
        return "BRenamed %d %d %d" % tuple(a)
    if t == 11:
        return "BClose %d" % a[0]
    if t == 12:
        return "BUse %d %d" % tuple(a)
    raise ValueError(k)


def op(o):
    k, a = o["k"], o["a"]
    names = nlist(o.get("names"))
    if k == "attach":
        return "OAttach %d %d %s" % (a[0], a[1], names)
    if k == "walk":
        return "OWalk %d %d %d %s %s" % (a[0], a[1], a[2], names, coq_bool(o.get("g", False)))
    simple = {"clunk": ("OClunk", 2), "remove": ("ORemove", 2), "open": ("OOpen", 3), "create": ("OCreate", 4), "mk": ("OMk", 4),
              "link": ("OLink", 4), "getattr": ("OGetAttr", 2), "use": ("OUse", 3), "io": ("OIO", 3), "setattr": ("OSetAttr", 2),
              "readdir": ("OReaddir", 2), "readlink": ("OReadlink", 2), "unlinkat": ("OUnlinkAt", 3), "rename": ("ORename", 4),
              "renameat": ("ORenameAt", 5), "xattrwalk": ("OXattrWalk", 3), "xattrcreate": ("OXattrCreate", 2), "stop": ("OStop", 1)}
    c, n = simple[k]
    if len(a) != n:
        raise ValueError(o)
    return c + " " + " ".join(str(x) for x in a)


def step(s):
    objs = "[" + "; ".join("(%d, %s, %s)" % (x["ino"], coq_bool(x["alive"]), coq_bool(x["dir"])) for x in (s.get("objs") or [])) + "]"
    log = "[" + "; ".join(call(k) for k in (s.get("log") or [])) + "]"
    return "HS (%s) %d %d %s %s" % (op(s["op"]), s["errno"], s["val"], log, objs)


def view(v):
    return "[" + "; ".join("(%d, %s)" % (e[0], nlist(e[1])) for e in (v or [])) + "]"


def dnode(d):
    return "(%s, %s, %s, %s)" % (nlist(d["path"]), coq_bool(d["del"]), view(d["refs"]), view(d["names"]))


def case(o):
    if o.get("gated"):
        log = "[" + "; ".join(call(k) for k in o["log"]) + "]"
        probes = "[" + ";\n    ".join(step(s) for s in o["probes"]) + "]"
        return "CGated %s\n   %s\n   %d %s %d" % (log, probes, o["nhandles"], coq_bool(o["returned"]), min(o["gdelta"], 1000))
    inj = "[" + "; ".join("(%d, %d)" % (i[0], i[1]) for i in o["inject"]) + "]"
    steps = "[" + ";\n    ".join(step(s) for s in o["steps"]) + "]"
    dump = "[" + "; ".join(dnode(d) for d in o["dump"]) + "]"
    return "CHist %s %s\n   %s\n   %d %s %d %s %s %d" % (coq_bool(o["wga"]), inj, steps, o["nhandles"], coq_bool(o["complete"]), o["dump_at"], dump,
                                                      coq_bool(o["returned"]), min(o["gdelta"], 1000))


HEADER = ("From Coq Require Import List Arith Bool.\nFrom P9V Require Import Refs.Model Refs.PathFS Refs.Cases.\nImport ListNotations.\n")


def cases_text(obs, diagnose=False):
    body = ";\n  ".join("(%s)" % case(o) for o in obs)
    t = HEADER + "Definition cases : list rcase := [\n  %s\n].\n" % body
    t += "Definition M := Eval vm_compute in mismatches cases.\nPrint M.\nDefinition P := Eval vm_compute in property_failures cases.\nPrint P.\n"
    if diagnose:
        t += "Definition D := Eval vm_compute in map diagnose cases.\nPrint D.\n"
    return t


def nsteps(o):
    return len(o["steps"])


def shard(obs, max_steps=1000):
    """split into shards of bounded total step count; returns list of (start index, list)"""
    out = []
    cur = []
    n = 0
    start = 0
    for i, o in enumerate(obs):
        if cur and n + nsteps(o) > max_steps:
            out.append((start, cur))
            cur, n, start = [], 0, i
        cur.append(o)
        n += nsteps(o)
    if cur:
        out.append((start, cur))
    return out


def evaluate(ctx, pid, obs):
    """Evaluate all histories in Coq. Returns (mismatch indexes, property-failure indexes)."""
    shards = shard(obs)
    texts = [cases_text(s) for _, s in shards]
    res = ctx.coq_eval_shards(pid + "_cases", texts, ["M", "P"], timeout=1200)
    M, P = [], []
    for (start, _), r in zip(shards, res):
        if r is None:
            continue
        M += [start + i for i in vlib.coq_nat_list(r["M"])]
        P += [start + i for i in vlib.coq_nat_list(r["P"])]
    return M, P


def diagnose(ctx, pid, o):
    """first differing step of one history (for the log / replay file)"""
    r = ctx.coq_eval(pid + "_diag", cases_text([o], diagnose=True), ["D"], timeout=600)
    return r["D"] if r else None


# ---- evidence: which records count, which are shown -------------------------------------------------
B_CLOSE, B_RENAMEAT = 11, 9
CHANGERS = ("rename", "renameat", "unlinkat", "remove")


def calls_of(o):
    return [c for s in o["steps"] for c in s["log"]] if "steps" in o and not o.get("gated") else [c for c in o.get("log", [])]


def nontrivial(o, pid):
    """The stated rule for `distinct_nontrivial`: a gated scenario; or a history of >= 3 requests in which
    (C05) at least one File was closed, or (C08) at least one rename/unlink request succeeded."""
    if o.get("gated"):
        return True
    steps = o["steps"]
    if len(steps) < 3:
        return False
    if pid == "C05":
        return any(c and c[0] == B_CLOSE for c in calls_of(o))
    return any(s["op"]["k"] in CHANGERS and s["errno"] == 0 for s in steps)


def count_distinct_nontrivial(obs, pid):
    return len({json.dumps([o.get("steps"), o.get("inject"), o.get("log"), o.get("kind")], sort_keys=True) for o in obs if nontrivial(o, pid)})


def pick_samples(obs, pid, slim):
    """Representative records: the non-gated history with an injected failure that makes the most backend calls,
    the complete (all connections stopped) history with the most successful rename/unlink requests, one gated scenario."""
    out = []
    inj = [o for o in obs if not o.get("gated") and o.get("inject") and nontrivial(o, pid)]
    if inj:
        out.append(max(inj, key=lambda o: len(calls_of(o))))
    comp = [o for o in obs if not o.get("gated") and o.get("complete") and not o.get("inject")]
    if comp:
        out.append(max(comp, key=lambda o: (sum(1 for s in o["steps"] if s["op"]["k"] in CHANGERS and s["errno"] == 0), len(calls_of(o)))))
    gated = [o for o in obs if o.get("gated")]
    if gated:
        out.append(gated[0])
    if not out and obs:
        out.append(obs[0])
    return [slim(o) for o in out]
