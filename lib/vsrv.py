"""Shared by props/C04.py, C09.py, C15.py: observed server histories (harness/p9/vhsrv_*_test.go)
-> coq/cases text for Server/Cases.v, evaluation, verdicts."""
import vlib
from vlib import coq_string, coq_bool

HARNESS_FILES = ["vh_common_test.go", "vhsrv_backend_test.go", "vhsrv_gen_test.go"]

METH = ["MAttach", "MWalk", "MWalkGetAttr", "MStatFS", "MGetAttr", "MSetAttr", "MClose", "MOpen", "MReadAt", "MWriteAt",
        "MSetXattr", "MGetXattr", "MListXattrs", "MRemoveXattr", "MFSync", "MLock", "MCreate", "MMkdir", "MSymlink",
        "MLink", "MMknod", "MRenameAt", "MUnlinkAt", "MReaddir", "MReadlink", "MRenamed"]


def hs(h):
    b = bytes.fromhex(h)
    if len(b) > 512:
        # long hostile names: a short prefix, one byte repeated, a short suffix
        best, bs, i = 0, 0, 0
        while i < len(b):
            j = i
            while j < len(b) and b[j] == b[i]:
                j += 1
            if j - i > best:
                best, bs = j - i, i
            i = j
        if len(b) - best <= 64:
            return "(%s ++ rep_string %d %d ++ %s)%%string" % (coq_string(b[:bs]), best, b[bs], coq_string(b[bs + best:]))
    return coq_string(b)


def strs(l):
    return "[" + "; ".join(hs(x) for x in l) + "]"


def nums(l):
    return "[" + "; ".join(str(x) for x in l) + "]"


def leaf(l):
    k = l["k"]
    if k == "L":
        return "LLinux %d" % l["n"]
    if k == "S":
        return "LSys %d" % l["n"]
    return {"NE": "LNotExist", "EX": "LExist", "PM": "LPerm", "IV": "LInvalid", "EOF": "LEOF", "OP": "LOpaque"}[k]


def answer(a):
    if a["p"]:
        return "APanic"
    return "AVal (mkV %s %s %d %d %s) [%s]" % (nums(a["q"]), coq_bool(a["valid"]), a["mode"], a["n"], strs(a["strs"]),
                                               "; ".join(leaf(l) for l in a["e"]))


def call(c):
    h2 = "None" if c["h2"] < 0 else "(Some %d)" % c["h2"]
    return "mkCall %s %d %s %s %s %s" % (METH[c["m"]], c["h"], strs(c["names"]), h2, nums(c["a"]), strs(c["s"]))


def msg(q):
    t, n, s, u = q["t"], q["n"], q["s"], q["u"]
    U = "None" if u is None else "(Some %d)" % u
    S = lambda i: hs(s[i])
    if t == "Tversion":
        return "Tversion %d %s" % (n[0], S(0))
    if t == "Tflush":
        return "Tflush %d" % n[0]
    if t == "Tauth":
        return "Tauth %d %s %s %d" % (n[0], S(0), S(1), n[1])
    if t == "Tattach":
        return "Tattach %d %d %s %s %d" % (n[0], n[1], S(0), S(1), n[2])
    if t in ("Twalk", "Twalkgetattr"):
        return "%s %d %d %s" % (t, n[0], n[1], strs(s))
    if t in ("Tclunk", "Tremove", "Treadlink", "Tfsync", "Tstatfs", "Tother"):
        return "%s %d" % (t, n[0])
    if t == "Tlopen":
        return "Tlopen %d %d" % (n[0], n[1])
    if t == "Tlcreate":
        return "Tlcreate %s %d %s %d %d %d" % (U, n[0], S(0), n[1], n[2], n[3])
    if t == "Tsymlink":
        return "Tsymlink %s %d %s %s %d" % (U, n[0], S(0), S(1), n[1])
    if t == "Tmknod":
        return "Tmknod %s %d %s %d %d %d %d" % (U, n[0], S(0), n[1], n[2], n[3], n[4])
    if t == "Tmkdir":
        return "Tmkdir %s %d %s %d %d" % (U, n[0], S(0), n[1], n[2])
    if t == "Tlink":
        return "Tlink %d %d %s" % (n[0], n[1], S(0))
    if t == "Trenameat":
        return "Trenameat %d %s %d %s" % (n[0], S(0), n[1], S(1))
    if t == "Tunlinkat":
        return "Tunlinkat %d %s %d" % (n[0], S(0), n[1])
    if t == "Trename":
        return "Trename %d %d %s" % (n[0], n[1], S(0))
    if t in ("Tread", "Twrite", "Treaddir"):
        return "%s %d %d %d" % (t, n[0], n[1], n[2])
    if t in ("Tgetattr", "Tsetattr"):
        return "%s %d %d" % (t, n[0], n[1])
    if t == "Txattrwalk":
        return "Txattrwalk %d %d %s" % (n[0], n[1], S(0))
    if t == "Txattrcreate":
        return "Txattrcreate %d %s %d %d" % (n[0], S(0), n[1], n[2])
    if t == "Tlock":
        return "Tlock %d %d %d %d %d %d %s" % (n[0], n[1], n[2], n[3], n[4], n[5], S(0))
    raise ValueError(t)


def reply(st):
    if st["rt"] == 7:
        return "RErr %d" % st["errno"]
    if st["rt"] == 101:
        return "RVersion %d %s" % (st["vals"][0], hs(st["str"]))
    return "ROk %d %s %s" % (st["rt"], nums(st["vals"]), hs(st["str"]))


def step(st):
    return "mkStep %d (%s) [%s] (%s) [%s] %s %s" % (
        st["req"]["c"], msg(st["req"]), "; ".join(answer(c["ans"]) for c in st["calls"]), reply(st),
        "; ".join(call(c) for c in st["calls"]), nums(st["fids"]), coq_bool(st["reduced"]))


def par_reply(st):
    if st["rt"] == 7:
        return "RErr %d" % st["errno"]
    return "ROk %d %s \"\"" % (st["rt"], nums(st["vals"]))


def par(h):
    """two Tlopen in flight together (harness: doPar): CPar flagsA flagsB replyA replyB [answers of File.Open in call order]"""
    opens = [c for c in h["calls"] if METH[c["m"]] == "MOpen"]
    return "CPar %d %d (%s) (%s) [%s]" % (h["a"]["req"]["n"][1], h["b"]["req"]["n"][1], par_reply(h["a"]), par_reply(h["b"]),
                                          "; ".join(answer(c["ans"]) for c in opens))


def hist(h):
    return "CHist [\n    %s]" % ";\n    ".join(step(s) for s in h["steps"])


HEADER = ("From P9V Require Import Base.Str Server.State Server.Msg Server.Cases.\n"
          "Open Scope string_scope.\nOpen Scope N_scope.\n")


def cases_text(hists):
    # one definition per step: elaboration of one huge list literal is several times slower
    defs = []
    for i, h in enumerate(hists):
        if h.get("kind") == "par":
            defs.append("Definition h_%d : srvcase := %s." % (i, par(h)))
            continue
        for j, s in enumerate(h["steps"]):
            defs.append("Definition s_%d_%d : ostep := %s." % (i, j, step(s)))
        defs.append("Definition h_%d : srvcase := CHist [%s]." % (i, "; ".join("s_%d_%d" % (i, j) for j in range(len(h["steps"])))))
    return (HEADER + "\n".join(defs) + "\nDefinition cases : list srvcase := [%s].\n" % "; ".join("h_%d" % i for i in range(len(hists))) +
            "Definition V := Eval vm_compute in judged cases.\n"
            "Definition M := Eval vm_compute in mismatches V.\nPrint M.\n"
            "Definition P04 := Eval vm_compute in failures04 V.\nPrint P04.\n"
            "Definition P09 := Eval vm_compute in failures09 V.\nPrint P09.\n"
            "Definition P15 := Eval vm_compute in failures15 V.\nPrint P15.\n"
            "Definition W := Eval vm_compute in where_ V.\nPrint W.\n")


def shard(hists, max_steps=350):
    out, cur, n = [], [], 0
    for h in hists:
        k = len(h["steps"]) + 1
        if cur and n + k > max_steps:
            out.append(cur)
            cur, n = [], 0
        cur.append(h)
        n += k
    if cur:
        out.append(cur)
    return out


def parse_where(s):
    """printed `where_` list -> {history index: (mismatch, c04, c09, c15)} with step numbers or None"""
    import re
    out = {}
    for item in vlib.coq_list_items(s or "[]"):
        nums_ = re.findall(r"Some (\d+)|None|\((\d+)%?\w*,", item)
        m = re.match(r"\(\s*(\d+)", item)
        if not m:
            continue
        idx = int(m.group(1))
        parts = re.findall(r"Some\s+(\d+)|None", item)
        toks = re.findall(r"Some\s+\d+|None", item)
        vals = [int(t.split()[1]) if t.startswith("Some") else None for t in toks]
        out[idx] = tuple(vals[:4])
    return out


def evaluate(ctx, base, hists, which):
    """Run Server/Cases.v over the histories.  which: 'P04' | 'P09' | 'P15'.
    Returns (n_mismatch, n_fail).  Violations / broken correspondences are recorded on ctx."""
    groups = shard(hists)
    texts = [cases_text(g) for g in groups]
    res = ctx.coq_eval_shards(base, texts, ["M", "P04", "P09", "P15", "W"], timeout=1200, workers=12)
    nm = nf = 0
    for g, r in zip(groups, res):
        if r is None:
            continue
        where = parse_where(r["W"])
        for idx in vlib.coq_nat_list(r[which]):
            h = g[idx]
            stepno = where.get(idx, (None,) * 4)[{"P04": 1, "P09": 2, "P15": 3}[which]]
            nf += 1
            if h.get("kind") == "par":
                ctx.violation("%s:overlap" % ctx.pid, "two %s requests in flight together on one fid: replies %s / %s with %d File.Open call(s) -- "
                              "a fid opens at most once" % (h["a"]["req"]["t"], par_reply(h["a"]), par_reply(h["b"]),
                                                          sum(1 for c in h["calls"] if METH[c["m"]] == "MOpen")), {"overlap": h})
                continue
            st = h["steps"][stepno] if stepno is not None and stepno < len(h["steps"]) else None
            key = "%s:%s" % (ctx.pid, st["req"]["t"] if st else "?")
            ctx.violation(key, "observed behaviour violates %s at step %s of history %s (request %s)" % (
                ctx.pid, stepno, h["id"], st["req"] if st else "?"),
                {"history": h["id"], "failing_step": stepno, "fault": h.get("fault"),
                 "steps": h["steps"][:(stepno + 1) if stepno is not None else None]})
        for idx in vlib.coq_nat_list(r["M"]):
            h = g[idx]
            stepno = where.get(idx, (None,) * 4)[0]
            nm += 1
            if h.get("kind") == "par":
                ctx.note("interleaving model / implementation disagree on an overlap: %s" % str(h)[:700])
                ctx.broken.append({"kind": "correspondence", "what": "Server/OpenPar.v allows no schedule with the observed replies (overlapping Tlopen)",
                                   "history": h["id"], "observed": h})
                continue
            st = h["steps"][stepno] if stepno is not None and stepno < len(h["steps"]) else None
            if nm <= 5:
                ctx.note("model/implementation disagree: history %s step %s: %s" % (h["id"], stepno, str(st)[:700]))
            ctx.broken.append({"kind": "correspondence", "what": "Server/Handlers.v disagrees with the implementation (%s)" % (st["req"]["t"] if st else "?"),
                               "history": h["id"], "step": stepno, "observed": st})
    return nm, nf


def _cls(st):
    e = st["errno"] if st["rt"] == 7 else "ok"
    return (st["req"]["t"], str(e), tuple(c["m"] for c in st["calls"]),
            tuple(bool(c["ans"]["e"]) or c["ans"]["p"] for c in st["calls"]))


def _trivial(cls):
    """a class is trivial when nothing reached the backend and the reply is EBADF (unbound fid) or success
    (Tversion/Tflush-like requests that involve neither the fid table nor the backend)"""
    t, e, calls, _ = cls
    return not calls and e in ("9", "ok")


def stats(hists):
    """distribution + distinct_nontrivial.  RULE: steps are classified by (request type, reply class = ok|errno,
    ordered list of backend methods called, per-call error/panic flags); distinct_nontrivial counts the classes
    in which a backend call was made or the request was refused with an errno other than EBADF."""
    kinds, errnos, meths = {}, {}, {}
    steps = calls = faults = 0
    distinct = set()
    for h in hists:
        for st in h["steps"]:
            steps += 1
            t = st["req"]["t"]
            kinds[t] = kinds.get(t, 0) + 1
            e = st["errno"] if st["rt"] == 7 else "ok"
            errnos[str(e)] = errnos.get(str(e), 0) + 1
            calls += len(st["calls"])
            for c in st["calls"]:
                meths[METH[c["m"]]] = meths.get(METH[c["m"]], 0) + 1
                if c["ans"]["p"] or c["ans"]["e"]:
                    faults += 1
            distinct.add(_cls(st))
    nontrivial = [c for c in distinct if not _trivial(c)]
    return {"histories": len(hists), "steps": steps, "backend_calls": calls, "calls_answered_with_error_or_panic": faults,
            "distinct_classes_all": len(distinct), "distinct_classes_trivial": len(distinct) - len(nontrivial),
            "requests_by_type": kinds, "replies_by_errno": errnos, "calls_by_method": meths}, len(nontrivial)


DISTINCT_RULE = ("distinct_nontrivial = number of distinct classes (request type, reply class ok|errno, ordered backend methods called, "
                 "per-call error/panic flags) in which a backend call was made or the request was refused with an errno other than EBADF")


def samples(hists, boundary=None):
    """three representative observed steps: a boundary case (refused before any backend call, by default with an
    errno other than EBADF), a typical success with at least one backend call, a fault (a backend call answered with
    an error or a panic).  Each with the id of its history and its step number."""
    if boundary is None:
        boundary = lambda st: st["rt"] == 7 and not st["calls"] and st["errno"] != 9
    want = {
        "boundary": boundary,
        "typical": lambda st: st["rt"] != 7 and len(st["calls"]) >= 1 and not any(c["ans"]["e"] or c["ans"]["p"] for c in st["calls"]),
        "fault": lambda st: any(c["ans"]["e"] or c["ans"]["p"] for c in st["calls"]),
    }
    out = {}
    for h in hists:
        for i, st in enumerate(h["steps"]):
            for k, pred in want.items():
                if k not in out and pred(st):
                    out[k] = {"history": h["id"], "step": i, "observed": st}
        if len(out) == len(want):
            break
    return [dict(kind=k, **out[k]) if k in out else {"kind": k, "observed": None} for k in ("boundary", "typical", "fault")]
