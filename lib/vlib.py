"""Shared machinery of the /verif checks (see DESIGN.md section 2.4 and 4).

One run of `./check Cxx`:
  1. go2coq regenerates coq/gen/*.v from /repo's working tree
  2. make builds the cone of coq/Properties/Cxx.vo   (proof obligations)
  3. coqc re-checks Properties/Cxx.v and its Print Assumptions output is audited
  4. the property's Go harness runs the real code through `go test -overlay`
  5. observations become coq/cases/*.v, evaluated by coqc (vm_compute)
  6. verdict, replay files, evidence/Cxx.json
"""
import fcntl
import glob
import hashlib
import importlib.util
import json
import os
import random
import re
import shutil
import subprocess
import sys
import time
from concurrent.futures import ThreadPoolExecutor

VERIF = os.path.dirname(os.path.dirname(os.path.abspath(__file__)))
# VERIF_REPO (testing aid): run the checks against another checkout (a scratch git worktree with a
# candidate breaking change) without touching /repo.  Everything mutable then lives under
# run/alt-<hash>/ (own copy of coq/, own evidence), so runs against /repo are not disturbed.
REPO = os.path.abspath(os.environ.get("VERIF_REPO") or "/repo")
ALT = REPO != "/repo"
RUN = os.path.join(VERIF, "run")
COQ = os.path.join(VERIF, "coq")
EVIDENCE = os.path.join(VERIF, "evidence")
if ALT:
    RUN = os.path.join(VERIF, "run", "alt-" + hashlib.sha256(REPO.encode()).hexdigest()[:10])
    COQ = os.path.join(RUN, "coq")
    EVIDENCE = os.path.join(RUN, "evidence")
LOGICAL = "P9V"


def prepare_alt():
    """Copy coq/ (sources and compiled files) into the alternate run directory."""
    if not ALT:
        return
    os.makedirs(RUN, exist_ok=True)
    subprocess.run(["rsync", "-a", "--delete", "--exclude", "cases/", os.path.join(VERIF, "coq") + "/", COQ + "/"], check=True)

GOENV = {
    "GOFLAGS": "-mod=mod",
    "GOPROXY": "off",
    "GOSUMDB": "off",
    "GOTOOLCHAIN": "local",
    "CGO_ENABLED": "0",
}

FORBIDDEN = re.compile(
    r"\b(Admitted|admit|Axiom|Axioms|Parameter|Parameters|Conjecture|Conjectures|Admit Obligations)\b"
    r"|Unset\s+Guard\s+Checking|Unset\s+Positivity\s+Checking|Unset\s+Universe\s+Checking"
    r"|bypass_check|type-in-type|impredicative-set"
)

OBLIGATION_KW = re.compile(
    r"^\s*(?:(?:Local|Global|#\[[^\]]*\])\s+)*(Theorem|Lemma|Example|Corollary|Fact|Proposition|Remark)\s+([A-Za-z_][A-Za-z0-9_']*)",
    re.M,
)


def sh(cmd, cwd=None, env=None, timeout=None, stdin=None):
    """Run a command, return (rc, combined output). rc 124 on timeout."""
    e = dict(os.environ)
    if env:
        e.update(env)
    try:
        p = subprocess.run(cmd, cwd=cwd, env=e, stdout=subprocess.PIPE, stderr=subprocess.STDOUT,
                           timeout=timeout, input=stdin, shell=isinstance(cmd, str))
        return p.returncode, p.stdout.decode("utf-8", "replace")
    except subprocess.TimeoutExpired as ex:
        out = ex.stdout.decode("utf-8", "replace") if ex.stdout else ""
        return 124, out + "\n[timeout after %ss]" % timeout


class Lock:
    """flock on run/.lock: serialises translator + make between parallel checks."""

    def __init__(self, name=".lock"):
        os.makedirs(RUN, exist_ok=True)
        self.path = os.path.join(RUN, name)

    def __enter__(self):
        self.f = open(self.path, "w")
        fcntl.flock(self.f, fcntl.LOCK_EX)
        return self

    def __exit__(self, *a):
        fcntl.flock(self.f, fcntl.LOCK_UN)
        self.f.close()


def write_if_changed(path, text):
    try:
        if open(path).read() == text:
            return False
    except FileNotFoundError:
        pass
    os.makedirs(os.path.dirname(path), exist_ok=True)
    tmp = path + ".tmp%d" % os.getpid()
    with open(tmp, "w") as f:
        f.write(text)
    os.replace(tmp, path)
    return True


# ---------------------------------------------------------------------------
# Coq project handling


def coq_sources():
    out = []
    for root, dirs, files in os.walk(COQ):
        rel = os.path.relpath(root, COQ)
        if rel.startswith("cases") or rel.startswith("scratch"):
            continue
        for f in files:
            if f.endswith(".v") and not f.startswith("."):
                out.append(os.path.normpath(os.path.join(rel, f)))
    return sorted(out)


def refresh_coqproject():
    """_CoqProject is derived from the directory listing, so adding a file needs no edit."""
    lines = ["-Q . %s" % LOGICAL, "-arg -w", "-arg -notation-overridden,-deprecated-hint-without-locality,-deprecated-instance-without-locality,-ambiguous-paths,-deprecated-syntactic-definition"]
    lines += coq_sources()
    changed = write_if_changed(os.path.join(COQ, "_CoqProject"), "\n".join(lines) + "\n")
    mk = os.path.join(COQ, "Makefile")
    if changed or not os.path.exists(mk):
        rc, out = sh(["coq_makefile", "-f", "_CoqProject", "-o", "Makefile"], cwd=COQ, timeout=120)
        if rc != 0:
            raise RuntimeError("coq_makefile failed: " + out)


def run_translator(log):
    """Regenerate coq/gen/*.v from /repo. Returns (ok, output)."""
    binp = os.path.join(VERIF, "run", "bin", "go2coq")
    src = os.path.join(VERIF, "tools", "go2coq")
    if not os.path.isdir(src):
        return True, "no translator yet"
    newest = max(os.path.getmtime(p) for p in glob.glob(os.path.join(src, "*.go")) + [os.path.join(src, "go.mod")])
    if not os.path.exists(binp) or os.path.getmtime(binp) < newest:
        os.makedirs(os.path.dirname(binp), exist_ok=True)
        tmpb = "%s.new.%d" % (binp, os.getpid())   # concurrent checks (alternate checkouts) must not share the temp name
        rc, out = sh(["go", "build", "-o", tmpb, "."], cwd=src, env=GOENV, timeout=300)
        if rc == 0:
            os.replace(tmpb, binp)
        elif os.path.exists(binp):
            # a generator file is being edited right now: keep using the last binary that built
            # (on a fresh restore there is none, and setup.sh / this branch then fail for real)
            log.append("[go2coq] WARNING: translator sources do not build, using the previous binary:\n" + out[-1500:])
        else:
            return False, "translator does not build:\n" + out
    rc, out = sh([binp, "-repo", REPO, "-out", os.path.join(COQ, "gen")], timeout=120)
    log.append("[go2coq] rc=%d\n%s" % (rc, out[-4000:]))
    return rc == 0, out


def _jobs(default):
    """VERIF_JOBS (testing aid, never set by the registered commands): cap on parallel coqc processes."""
    try:
        return max(1, min(default, int(os.environ.get("VERIF_JOBS") or default)))
    except ValueError:
        return default


def make_targets(targets, jobs=16, timeout=1500):
    jobs = _jobs(jobs)
    refresh_coqproject()
    rc, out = sh(["make", "-j%d" % jobs, "-k"] + targets, cwd=COQ, timeout=timeout)
    return rc, out


def parse_coq_error(out):
    """First `File "...", line N` error in a make/coqc log -> (file, line, message)."""
    m = re.search(r'File "([^"]+)", line (\d+), characters [\d-]+:\s*\n(Error:.*?)(?:\n\n|\nmake|\Z)', out, re.S)
    if not m:
        return None
    return m.group(1), int(m.group(2)), m.group(3).strip()[:1500]


def enclosing_statement(vfile, line):
    """Name of the Theorem/Lemma/Definition enclosing a line (for the replay file)."""
    try:
        src = open(vfile if os.path.isabs(vfile) else os.path.join(COQ, vfile)).read().split("\n")
    except OSError:
        return None
    pat = re.compile(r"^\s*(?:Theorem|Lemma|Example|Corollary|Fact|Definition|Fixpoint|Goal|Check|Remark|Proposition)\s+([A-Za-z_][A-Za-z0-9_']*)")
    for i in range(min(line, len(src)) - 1, -1, -1):
        m = pat.match(src[i])
        if m:
            return m.group(1)
    return None


def cone_of(vfile):
    """Transitive P9V dependencies of a .v file (relative to coq/), itself included."""
    seen = []
    todo = [vfile]
    while todo:
        f = todo.pop()
        if f in seen:
            continue
        p = os.path.join(COQ, f)
        if not os.path.exists(p):
            continue
        seen.append(f)
        src = strip_comments(open(p).read())
        # a vernacular sentence ends with a dot followed by white space
        for m in re.finditer(r"(?:From\s+(\S+)\s+)?Require\s+(?:Import\s+|Export\s+)?(.*?)\.(?=\s)", src, re.S):
            frm = m.group(1)
            for mod in m.group(2).split():
                if frm == LOGICAL:
                    mod = mod[len(LOGICAL) + 1:] if mod.startswith(LOGICAL + ".") else mod
                    todo.append(mod.replace(".", "/") + ".v")
                elif frm is None and mod.startswith(LOGICAL + "."):
                    todo.append(mod[len(LOGICAL) + 1:].replace(".", "/") + ".v")
    return sorted(seen)


def strip_comments(src):
    out = []
    depth = 0
    i = 0
    while i < len(src):
        if src.startswith("(*", i):
            depth += 1
            i += 2
        elif src.startswith("*)", i) and depth:
            depth -= 1
            i += 2
        else:
            if not depth:
                out.append(src[i])
            i += 1
    return "".join(out)


def count_obligations(cone):
    names = []
    forbidden = []
    for f in cone:
        src = strip_comments(open(os.path.join(COQ, f)).read())
        for m in OBLIGATION_KW.finditer(src):
            names.append("%s:%s" % (f, m.group(2)))
        for m in FORBIDDEN.finditer(src):
            forbidden.append("%s: %s" % (f, m.group(0)))
    return names, forbidden


def coqc_file(vfile, timeout=900):
    """Compile one file (relative to coq/) with the project's flags; returns (rc, output)."""
    return sh(["coqc", "-q", "-Q", ".", LOGICAL, "-w", "-notation-overridden,-deprecated-hint-without-locality,-deprecated-instance-without-locality,-ambiguous-paths,-deprecated-syntactic-definition", vfile], cwd=COQ, timeout=timeout)


def parse_assumptions(out):
    """Return list of (closed?, text) per Print Assumptions block in coqc output."""
    blocks = []
    cur = None
    for line in out.split("\n"):
        if line.startswith("Closed under the global context"):
            blocks.append((True, ""))
            cur = None
        elif line.startswith("Axioms:"):
            cur = []
            blocks.append((False, cur))
        elif cur is not None:
            if line.strip() == "" or not (line.startswith(" ") or re.match(r"^[A-Za-z_][\w.']* :", line)):
                if line.strip() == "":
                    cur = None
                    continue
            cur.append(line.rstrip())
    return [(c, t if c else "\n".join(t)) for c, t in blocks]


def parse_print(out, name):
    """Value printed by `Print name.` for a Definition name := Eval ... (string)."""
    m = re.search(r"^%s\s*=\s*(.*?)\n\s*:\s" % re.escape(name), out, re.S | re.M)
    if not m:
        return None
    return re.sub(r"\s+", " ", m.group(1)).strip()


def coq_list_len(s):
    """Number of top-level elements of a printed Coq list `[a; b; c]` (0 for `[]`)."""
    s = s.strip()
    if s in ("[]", "nil"):
        return 0
    depth = 0
    n = 1
    instr = False
    for ch in s[1:-1]:
        if ch == '"':
            instr = not instr
        if instr:
            continue
        if ch in "([":
            depth += 1
        elif ch in ")]":
            depth -= 1
        elif ch == ";" and depth == 0:
            n += 1
    return n


def coq_list_items(s):
    s = s.strip()
    if s in ("[]", "nil"):
        return []
    items = []
    depth = 0
    cur = ""
    instr = False
    for ch in s[1:-1]:
        if ch == '"':
            instr = not instr
        if not instr:
            if ch in "([":
                depth += 1
            elif ch in ")]":
                depth -= 1
            elif ch == ";" and depth == 0:
                items.append(cur.strip())
                cur = ""
                continue
        cur += ch
    if cur.strip():
        items.append(cur.strip())
    return items


def coq_nat_list(s):
    """Printed `list nat` / `list N` -> python ints (scope suffixes like %nat stripped)."""
    return [int(re.sub(r"%\w+$", "", x.strip("() "))) for x in coq_list_items(s)]


# ---------------------------------------------------------------------------
# Coq literal helpers for cases files


def coq_string(b):
    """Coq string literal for arbitrary bytes (bytes or str): uses String (ascii) constructors only when needed."""
    if isinstance(b, str):
        b = b.encode("utf-8", "surrogateescape")
    if all(32 <= c < 127 and c != 34 for c in b):
        return '"%s"' % b.decode("ascii")
    return "(bytes_to_string [%s])" % "; ".join(str(c) for c in b)


def coq_N(n):
    return "%d%%N" % n


def coq_Z(n):
    return "(%d)%%Z" % n if n < 0 else "%d%%Z" % n


def coq_bool(b):
    return "true" if b else "false"


def coq_list(items):
    return "[" + "; ".join(items) + "]"


def coq_bytes(b):
    """list N literal"""
    return "[" + "; ".join(str(c) for c in b) + "]%N" if len(b) else "[]"


def coq_option(x):
    return "None" if x is None else "(Some %s)" % x


# ---------------------------------------------------------------------------


class Ctx:
    """Everything a property script needs for one run."""

    def __init__(self, pid, tier, seed, replay=None):
        self.pid = pid
        self.tier = tier
        self.seed = seed
        self.replay = replay
        self.replay_obj = None
        self.t0 = time.time()
        prepare_alt()
        self.rundir = os.path.join(RUN, pid)
        shutil.rmtree(self.rundir, ignore_errors=True)
        os.makedirs(self.rundir, exist_ok=True)
        self.log = []
        self.violations = []          # dicts with key/text/replay
        self.known = []               # known findings hit
        self.broken = []              # broken obligations / correspondences (dicts)
        self.coverage = {}
        self.assumptions = []
        self.rng = random.Random(seed)
        self.thorough = tier == "thorough"

    # -- logging -----------------------------------------------------------
    def note(self, msg):
        self.log.append(msg)
        print("[%s] %s" % (self.pid, msg), flush=True)

    def save_log(self):
        with open(os.path.join(self.rundir, "log.txt"), "w") as f:
            f.write("\n".join(self.log))

    # -- step 1-3: obligations --------------------------------------------
    def build(self, targets, properties_file, allowed_axioms=()):
        """Translator + make + Print Assumptions audit. Fills coverage['obligations'...]."""
        with Lock():
            ok, tout = run_translator(self.log)
            t = time.time()
            rc, out = make_targets(targets, timeout=3000 if self.thorough else 1500)
            self.log.append("[make %s] rc=%d %.1fs\n%s" % (" ".join(targets), rc, time.time() - t, out[-6000:]))
            cone = cone_of(properties_file)
            for t in targets:
                for f in cone_of(t[:-1] if t.endswith(".vo") else t):
                    if f not in cone:
                        cone.append(f)
            cone.sort()
            names, forb = count_obligations(cone)
            self.cone = cone
            if not ok:
                # a refusal matters to this property only if a refused table is in its cone
                refused = re.findall(r"REFUSED (\w+):(.*)", tout)
                hit = [(n, why) for n, why in refused if "gen/%s.v" % n in cone]
                if hit or not refused:
                    self.broken.append({"kind": "translator", "what": "go2coq refused the current source: " +
                                        "; ".join("%s:%s" % h for h in hit)[:600], "detail": tout[-3000:]})
                    self.note("translator refused: %s" % (hit or tout[-300:]))
            discharged = len(names)
            if rc != 0:
                err = parse_coq_error(out)
                if err:
                    f, line, msg = err
                    stmt = enclosing_statement(f, line)
                    self.broken.append({"kind": "obligation", "file": f, "line": line, "statement": stmt, "error": msg})
                    self.note("proof obligation broken: %s:%d (%s): %s" % (f, line, stmt, msg.split("\n")[0:3]))
                else:
                    self.broken.append({"kind": "obligation", "file": "?", "statement": None, "error": out[-2000:]})
                    self.note("make failed: " + out[-800:])
                # count as undischarged every statement of files that are not up to date after the failed build
                # (`make -q` asks just that; time stamps alone lie when coq/ was copied for an alternate checkout)
                discharged = 0
                uptodate = {}
                for n in names:
                    f = n.split(":")[0]
                    if f not in uptodate:
                        uptodate[f] = sh(["make", "-q", f[:-2] + ".vo"], cwd=COQ, timeout=120)[0] == 0
                    if uptodate[f]:
                        discharged += 1
            if forb:
                self.broken.append({"kind": "forbidden-vernacular", "what": forb})
                self.note("forbidden vernacular: %s" % forb)
            axioms = []
            thms = []
            if rc == 0:
                rc2, out2 = coqc_file(properties_file)
                self.log.append("[coqc %s] rc=%d\n%s" % (properties_file, rc2, out2[-3000:]))
                if rc2 != 0:
                    self.broken.append({"kind": "obligation", "file": properties_file, "error": out2[-2000:]})
                blocks = parse_assumptions(out2)
                src = strip_comments(open(os.path.join(COQ, properties_file)).read())
                thms = [m.group(2) for m in OBLIGATION_KW.finditer(src)]
                npa = len(re.findall(r"Print\s+Assumptions", src))
                if len(blocks) != npa:
                    self.note("warning: %d Print Assumptions in source, %d blocks parsed" % (npa, len(blocks)))
                # Enforced, not just recorded: EVERY statement of Properties/Cxx.v is asked for its assumptions
                # (whether or not the source has a Print Assumptions line) and anything but "closed under the
                # global context" fails the check unless the property script allow-lists that axiom by name.
                if thms and rc2 == 0:
                    mod = LOGICAL + "." + properties_file[:-2].replace("/", ".")
                    pa = "From %s Require Import %s.\n" % (LOGICAL, properties_file[:-2].replace("/", ".")) + \
                         "".join("Print Assumptions %s.\n" % t for t in thms)
                    d = os.path.join(COQ, "cases")
                    os.makedirs(d, exist_ok=True)
                    pan = "PA_%s" % self.pid
                    with open(os.path.join(d, pan + ".v"), "w") as f:
                        f.write(pa)
                    rc3, out3 = sh(["coqc", "-q", "-Q", ".", LOGICAL, os.path.join("cases", pan + ".v")], cwd=COQ, timeout=900)
                    for ext in (".vo", ".vok", ".vos", ".glob", ".v"):
                        try:
                            os.unlink(os.path.join(d, pan + ext))
                        except OSError:
                            pass
                    blocks = parse_assumptions(out3)
                    if rc3 != 0 or len(blocks) != len(thms):
                        self.broken.append({"kind": "obligation", "file": properties_file,
                                            "error": "Print Assumptions audit failed (rc=%d, %d blocks for %d statements): %s" % (rc3, len(blocks), len(thms), out3[-800:])})
                    for t, (closed, text) in zip(thms, blocks):
                        if not closed:
                            names = re.findall(r"^([A-Za-z_][\w.']*)\s*:", text, re.M)
                            bad = [n for n in names if n.split(".")[-1] not in allowed_axioms and n not in allowed_axioms]
                            axioms.append("%s depends on: %s" % (t, ", ".join(names) or text[:200]))
                            if bad or not names:
                                self.broken.append({"kind": "axioms", "statement": t, "what": "%s depends on axioms not allow-listed: %s" % (t, ", ".join(bad) or text[:200])})
                                self.note("axiom dependency: %s -> %s" % (t, bad or text[:200]))
                    self.coverage["print_assumptions_checked"] = len(blocks)
            self.coverage.update({
                "obligations": len(names),
                "discharged": discharged,
                "checker_cmd": "cd /verif/coq && make -j16 %s && coqc -Q . P9V %s   (Coq 8.16.1; full .vo build, no -vos)" % (" ".join(targets), properties_file),
                "property_theorems": thms,
                "axioms_reported_by_Print_Assumptions": axioms if axioms else ["none: every property theorem is closed under the global context"],
                "cone_files": cone,
                "generated_tables": {f: hashlib.sha256(open(os.path.join(COQ, f), "rb").read()).hexdigest()[:16]
                                     for f in cone if f.startswith("gen/")},
            })
            return rc == 0 and not forb

    def coqchk(self, properties_file):
        """Thorough tier: independent re-check of the compiled cone, cached per .vo hash."""
        mods = [LOGICAL + "." + f[:-2].replace("/", ".") for f in [properties_file]]
        h = hashlib.sha256()
        for f in self.cone:
            vo = os.path.join(COQ, f[:-2] + ".vo")
            if os.path.exists(vo):
                h.update(open(vo, "rb").read())
        key = h.hexdigest()[:24]
        cache = os.path.join(RUN, "coqchk-%s-%s.txt" % (self.pid, key))
        if os.path.exists(cache):
            out = open(cache).read()
            rc = 0
        else:
            rc, out = sh(["coqchk", "-silent", "-o", "-Q", ".", LOGICAL] + mods, cwd=COQ, timeout=3000)
            if rc == 0:
                with open(cache, "w") as f:
                    f.write(out)
        self.log.append("[coqchk] rc=%d\n%s" % (rc, out[-3000:]))
        self.coverage["coqchk"] = {"rc": rc, "summary": out[-1500:]}
        if rc != 0:
            self.broken.append({"kind": "obligation", "file": properties_file, "error": "coqchk failed: " + out[-1500:]})
        return rc == 0

    # -- step 4: harness ----------------------------------------------------
    def gotest(self, pkg, run, files, env=None, timeout=600, race=False, tags=None, extra=None):
        """Run in-package test `run` of /repo/<pkg> with harness files overlaid.
        files: names under /verif/harness/<pkg>/ . Returns (rc, output, obs) where obs is the
        list of JSON objects the test wrote to $VERIF_OUT."""
        ov = {"Replace": {}}
        for f in files:
            src = os.path.join(VERIF, "harness", pkg, f)
            if not os.path.exists(src):
                raise RuntimeError("missing harness file " + src)
            ov["Replace"][os.path.join(REPO, pkg, "zz_verif_" + os.path.basename(f))] = src
        tagn = re.sub(r"\W", "_", run)[:40]
        ovp = os.path.join(self.rundir, "overlay_%s.json" % tagn)
        with open(ovp, "w") as f:
            json.dump(ov, f)
        outp = os.path.join(self.rundir, "obs_%s.jsonl" % tagn)
        if os.path.exists(outp):
            os.unlink(outp)
        e = dict(GOENV)
        if race:
            e["CGO_ENABLED"] = "1"
        e.update({"VERIF_OUT": outp, "VERIF_SEED": str(self.seed), "VERIF_TIER": self.tier, "VERIF_RUNDIR": self.rundir, "VERIF_REPO_ROOT": REPO})
        if self.replay:
            e["VERIF_REPLAY"] = self.replay
        if env:
            e.update({k: str(v) for k, v in env.items()})
        cmd = ["go", "test", "-vet=off", "-count=1", "-overlay", ovp, "-run", run, "-timeout", "%ds" % timeout]
        if race:
            cmd.append("-race")
        if tags:
            cmd += ["-tags", tags]
        if extra:
            cmd += extra
        cmd.append("./" + pkg)
        t = time.time()
        rc, out = sh(cmd, cwd=REPO, env=e, timeout=timeout + 60)
        self.log.append("[go test %s %s] rc=%d %.1fs\n%s" % (pkg, run, rc, time.time() - t, out[-6000:]))
        obs = []
        if os.path.exists(outp):
            for line in open(outp):
                line = line.strip()
                if line:
                    try:
                        obs.append(json.loads(line))
                    except ValueError:
                        self.log.append("bad obs line: " + line[:200])
        return rc, out, obs

    def harness_broken(self, what, out):
        self.broken.append({"kind": "correspondence", "what": what, "detail": out[-3000:]})
        self.note("correspondence broken: %s" % what)

    # -- step 5: model evaluation inside Coq ---------------------------------
    def coq_eval(self, name, text, prints, timeout=900):
        """Write coq/cases/<name>.v, compile it, return {print name: value string}."""
        d = os.path.join(COQ, "cases")
        os.makedirs(d, exist_ok=True)
        path = os.path.join(d, name + ".v")
        with open(path, "w") as f:
            f.write(text)
        t = time.time()
        rc, out = sh(["coqc", "-q", "-Q", ".", LOGICAL, "-w", "-notation-overridden,-deprecated-syntactic-definition", os.path.join("cases", name + ".v")], cwd=COQ, timeout=timeout)
        self.log.append("[coqc cases/%s.v] rc=%d %.1fs\n%s" % (name, rc, time.time() - t, out[-3000:] if rc else out[-800:]))
        for ext in (".vo", ".vok", ".vos", ".glob"):
            try:
                os.unlink(os.path.join(d, name + ext))
            except OSError:
                pass
            try:
                os.unlink(os.path.join(d, "." + name + ".aux"))
            except OSError:
                pass
        if rc != 0:
            self.harness_broken("cases/%s.v does not evaluate (model and harness out of step)" % name, out)
            return None
        res = {}
        for p in prints:
            res[p] = parse_print(out, p)
            if res[p] is None:
                self.harness_broken("cases/%s.v printed no value for %s" % (name, p), out)
                return None
        return res

    def coq_eval_shards(self, base, texts, prints, timeout=900, workers=8):
        """Evaluate several cases files in parallel; returns list of dicts (None entries on failure)."""
        with ThreadPoolExecutor(max_workers=_jobs(workers)) as ex:
            futs = [ex.submit(self.coq_eval, "%s_%03d" % (base, i), t, prints, timeout) for i, t in enumerate(texts)]
            return [f.result() for f in futs]

    # -- step 6: verdict -----------------------------------------------------
    def violation(self, key, text, replay):
        """Record a concrete property failure (input/history/schedule in `replay`)."""
        self.violations.append({"key": key, "text": text, "replay": replay})

    def finish(self, level="proof", assumptions=None, trusted_base=None):
        known = load_known(self.pid)
        exit_code = 0
        nviol = 0
        lines = []
        perkey = {}
        for i, v in enumerate(self.violations):
            perkey[v["key"]] = perkey.get(v["key"], 0) + 1
            if perkey[v["key"]] > 3:
                continue  # same kind of failure already reported three times
            hit = [k for k in known if k["key"] == v["key"]]
            if hit:
                lines.append("KNOWN-FINDING: property=%s %s" % (self.pid, hit[0]["text"]))
                continue
            nviol += 1
            rp = os.path.join(self.rundir, "replay-%d.json" % i)
            with open(rp, "w") as f:
                json.dump({"property": self.pid, "seed": self.seed, "tier": self.tier, "key": v["key"], "what": v["text"],
                           "replay": v["replay"], "replay_cmd": "./check %s --replay %s" % (self.pid, rp)}, f, indent=1, default=str)
            lines.append("VIOLATION property=%s replay=%s" % (self.pid, rp))
            exit_code = 1
        if self.broken and nviol == 0:
            # nothing concrete found: the property is no longer shown to hold
            rp = os.path.join(self.rundir, "replay-broken.json")
            with open(rp, "w") as f:
                json.dump({"property": self.pid, "seed": self.seed, "tier": self.tier,
                           "no_failing_input_found": True, "broken": self.broken}, f, indent=1, default=str)
            names = []
            for b in self.broken:
                names.append(b.get("statement") or b.get("what") or b.get("file") or b["kind"])
            lines.append("VIOLATION property=%s replay=%s broken=%s no-failing-input-found" % (self.pid, rp, ",".join(str(n)[:60].replace(" ", "_") for n in names[:3])))
            nviol += 1
            exit_code = 1
        for k in known:
            # listed findings are reported on every run of the unchanged tree
            if not any(l.startswith("KNOWN-FINDING") and k["text"] in l for l in lines):
                if k.get("always"):
                    lines.append("KNOWN-FINDING: property=%s %s" % (self.pid, k["text"]))
        cov = self.coverage
        cov.setdefault("trusted_base", trusted_base or [])
        cov.setdefault("samples", [])
        ev = {
            "property_id": self.pid,
            "tier": self.tier,
            "seed": self.seed,
            "level": level,
            "coverage": cov,
            "assumptions": assumptions or [],
            "wall_s": round(time.time() - self.t0, 2),
            "violations": nviol,
            "broken": self.broken,
            "known_findings_hit": [l for l in lines if l.startswith("KNOWN-FINDING")],
        }
        os.makedirs(EVIDENCE, exist_ok=True)
        with open(os.path.join(EVIDENCE, "%s.json" % self.pid), "w") as f:
            json.dump(ev, f, indent=1, default=str)
        self.save_log()
        for l in lines:
            print(l, flush=True)
        print("[%s] %s tier=%s seed=%d obligations=%s/%s wall=%.1fs" % (
            self.pid, "FAIL" if exit_code else "ok", self.tier, self.seed,
            cov.get("discharged"), cov.get("obligations"), time.time() - self.t0), flush=True)
        return exit_code


def load_known(pid):
    """known_findings.txt:  finding: property=Cxx key=<key> <text>   |   fixed: property=Cxx <commit> <text>"""
    out = []
    p = os.path.join(VERIF, "known_findings.txt")
    if not os.path.exists(p):
        return out
    for line in open(p):
        line = line.strip()
        m = re.match(r"finding:\s+property=(\S+)\s+key=(\S+)\s+(.*)$", line)
        if m and m.group(1) == pid:
            out.append({"key": m.group(2), "text": m.group(3)})
    return out


def load_prop(pid):
    p = os.path.join(VERIF, "props", pid + ".py")
    spec = importlib.util.spec_from_file_location("prop_" + pid, p)
    mod = importlib.util.module_from_spec(spec)
    spec.loader.exec_module(mod)
    return mod
