"""C17 — stream segmentation independence on both receive paths."""
import vlib

ID = "C17"
PROPERTIES_FILE = "Properties/C17.v"
COQ_TARGETS = ["Properties/C17.vo", "Frame/FrameCases.vo"]
LEVEL = "proof"
TECHNIQUE = ("Coq theorems (all streams, all read scripts, both paths) over a hand-written operational model of io.ReadAtLeast, vecnet.Buffers.ReadFrom "
             "(generic nested loops and recvmsg + iovec consumption), io.Copy(Discard, LimitReader) and recv on top of them; tied to the code by differential "
             "cases through scripted io.Readers and real unix SOCK_STREAM socket pairs, evaluated with vm_compute")
LEVEL_TEXT = ("Theorems by induction on the script: both read paths fill the buffers with the first sum|bufs| bytes of the stream whatever each Read / recvmsg hands over "
              "(single bytes, cuts inside the header, between fixed part and payload, several frames per read, data together with io.EOF); hence recv and the whole "
              "receive loop over any segmentation equal recv / the loop on the flat stream, with exactly the unconsumed bytes left over; a stream ending inside a frame gives "
              "a connection error (or the rejection of a frame being thrown away), never a delivery. Every run re-checks the proofs and compares model and property with the real code.")
LEVEL_NOTE = ("Trusted: Coq kernel + vm_compute; the hand model Frame/Reader.v, tied by the differential and -- for the iovec-advance loop of readFromBuffersLinux -- by go2coq VecGen: the statements after each recvmsg "
              "are read into a small imperative language (Frame/Imp.v, Go index/slice panics included) and RUN against consume_iov for every list of <= 3 buffers of lengths 0..4 and every byte count (Frame/VecTie.v: bounded exhaustive, "
              "semantic -- renaming or an equivalent rewrite passes, the rewrites of C17-m3 / C02-m4 fail; not a theorem for all buffer lists, and the outer recvmsg/EOF loop stays a hand model). Real socket pairs: every cut position "
              "of short two-vector frames / 2-3 buffer layouts with a gated second write (what one recvmsg really returned is not observable; under load the two writes may coalesce, which loses coverage, never gives an alarm). The kernel's recvmsg is modelled as 'hands over any positive prefix, "
              "scattered over the iovecs in order' -- real coalescing on the socket is sampled, not controlled. Generic path: theorems need every scripted Read to hand over >= 1 byte "
              "(a split of the stream); vecnet deliberately treats a (0, nil) Read inside a body as the end of the stream (decision of the maintainers: fixes/C17-zero-read not applied); a split of a stream into reads "
              "has non-empty reads, so such scripts are outside the property's quantifier: the behaviour is modelled (zero_eof), compared by the differential (zero-read cases) and covered by "
              "C17_generic_safe (the answer is the flat one or a connection error, never another message).")
DESIGN_REF = "6/C17"
ASSUMPTIONS = [
    "recvmsg hands over a positive prefix of the available bytes, filling the iovecs in order; 0 bytes only at end of stream (EAGAIN is retried by RawConn.Read)",
    "generic path: every Read hands over at least one byte while data remains (net.Conn behaviour); zero-length reads are modelled but excluded from the equalities",
    "the decode verdict is a function of type, fixed part and payload (parameter decode_ok)",
]
TRUSTED_BASE = [
    "Coq 8.16.1 kernel, vm_compute (cases evaluation); no native_compute",
    "axioms: none (Print Assumptions: closed under the global context for every property theorem)",
    "go2coq ConstGen, FrameGen (registry) and VecGen (iovec-advance statements of readFromBuffersLinux) + the interpreter Frame/Imp.v",
    "hand-written models Frame/Reader.v and Frame/Model.v, tied by harness/p9/c17_seg_test.go, harness/vecnet/c17_vecnet_test.go + Frame/FrameCases.v",
]


def run(ctx):
    c02 = vlib.load_prop("C02")
    rc, out, obs = ctx.gotest("p9", "^TestVerifC17$", ["vh_common_test.go", "c02_reader_test.go", "c17_seg_test.go"], timeout=1200)
    if rc != 0 or not obs:
        ctx.harness_broken("harness TestVerifC17 failed (rc=%d): panic/hang of recv under some segmentation, or the harness no longer compiles" % rc, out)
        return
    rc2, out2, obs2 = ctx.gotest("vecnet", "^TestVerifC17Vec$", ["c17_vecnet_test.go"], timeout=1200)
    if rc2 != 0 or not obs2:
        ctx.harness_broken("harness TestVerifC17Vec failed (rc=%d): panic/hang of Buffers.ReadFrom, or the harness no longer compiles" % rc2, out2)
        return
    for o in obs2:
        o["id"] = "v%s" % o["id"]
    allobs = obs + obs2
    nm = c02.evaluate(ctx, "C17", allobs, "Frame/Reader.v")
    c02.summarise(ctx, allobs, nm,
                  "streams of 1-7 frames (with/without payloads, with damaged frames, cut mid-frame) x {every two-piece split, single bytes, random small/large cuts, data+EOF, "
                  "zero-length reads} through a scripted io.Reader; the same streams through a unix socket pair written in scripted chunks, read directly (recvmsg path) and behind a "
                  "plain io.Reader; every cut position of two short two-vector frames with a gated second write; a 300 KB payload through the socket; vecnet.Buffers.ReadFrom alone on buffer layouts incl. empty buffers x the same segmentations and the socket; "
                  "distinct = distinct observation records")
    modes = {}
    for o in allobs:
        if "mode" in o:
            k = "%s/mode%d" % (o["kind"], o["mode"])
            modes[k] = modes.get(k, 0) + 1
    ctx.coverage["correspondence"]["by_mode"] = modes


def search(ctx):
    if ctx.thorough or all(b.get("kind") in ("obligation", "translator", "forbidden-vernacular") for b in ctx.broken):
        return  # a broken proof / refused table is not made more concrete by a longer harness run
    ctx.tier = "thorough"
    ctx.thorough = True
    run(ctx)
