"""C14 — Rflush only after the flushed request has stopped executing."""
import vlib

_c06 = vlib.load_prop("C06")

ID = "C14"
PROPERTIES_FILE = "Properties/C14.v"
COQ_TARGETS = ["Properties/C14.vo", "Loop/Cases.vo"]
LEVEL = "proof"
TECHNIQUE = _c06.TECHNIQUE
LEVEL_TEXT = ("Theorems over ALL interleavings of the request-loop model (Loop/Model.v): when the handler of a Tflush has returned, every request "
              "received before it with the flushed tag has passed ClearTag (its handle returned; no backend call of it runs or starts later) - "
              "for any number of flushes, chained flushes and flushes naming each other; flush of own/idle/answered tag can return at once; the wait-for "
              "relation is acyclic; the flushed request is still answered exactly once (Loop/Variants.v: stated on a widened model in which a reply can be skipped and a "
              "backend call can outlive its handler - unreachable for the flag values tied to the source, fatal otherwise). Every run re-checks the proofs, re-extracts the capture "
              "(TagDone under recvMu, guarded by started && OldTag != tag, before spawn/unlock) and tflush.handle's body from the source, and runs "
              "the real Server.Handle with a request blocked in a gated backend call and 1-3 flushes, recording for every Rflush whether the flushed "
              "request was still inside the backend when it arrived.")
LEVEL_NOTE = _c06.LEVEL_NOTE
DESIGN_REF = "6/C14"
ASSUMPTIONS = _c06.ASSUMPTIONS + [
    "'the flushed request' is the request with tag OldTag received before the Tflush (a later request re-using the tag is not waited for)",
]
TRUSTED_BASE = [t.replace("c06_loop_test.go", "c14_flush_test.go") for t in _c06.TRUSTED_BASE]


def run(ctx):
    _c06.run_loop(ctx, "C14", "TestVerifC14", ["c14_flush_test.go"])


def search(ctx):
    _c06.search_loop(ctx, "C14", "TestVerifC14", ["c14_flush_test.go"])
