"""C20 — QID identity and mode/type mapping are stable and injective."""
import re
import vlib
from vlib import coq_string, coq_bool

ID = "C20"
PROPERTIES_FILE = "Properties/C20.v"
COQ_TARGETS = ["Properties/C20.vo", "Fsx/C20Cases.vo"]
LEVEL = "proof"
TECHNIQUE = ("Coq theorems over hand-written Gallina models of localfs encodeLikely (masks/shifts over N, unix.Major/Minor), the localToQid "
             "fallback table and qids.Mapper as small-step systems (all interleavings), and ModeFromOS/OSMode/QIDType (finite domain by "
             "vm_compute lifted with forallb_forall); models tied to the code by differential cases and FsGen source-shape obligations")
LEVEL_TEXT = ("Theorems: encodeLikely is injective on uint64 pairs and below 2^63 (bit lemmas); for every history and every interleaving of "
              "Load / atomic Add / atomic LoadOrStore the fallback table gives each pair one path for good, distinct pairs distinct paths, all "
              "above 2^63; qids.Mapper under its mutex likewise for every interleaving of Lock/lookup/NewPath/store/Unlock steps (and a refuted "
              "lemma for the unlocked variant, and one for a fallback table whose miss path stores without a second look: "
              "C20_unchecked_store_refuted); all 7 x 4096 modes round-trip through OSMode/ModeFromOS and QIDType follows the type. Every run "
              "re-checks the proofs and compares the models with the real encodeLikely/localToQid/Mapper/mode functions, sequentially and "
              "from concurrent goroutines (also through composefs/staticfs); the window between a missed lookup and the insertion in "
              "localToQid is probed by spin-barrier rounds of simultaneous FIRST lookups of fresh unlikely pairs (3000 rounds / 6 s quick), "
              "every result of a round must be one path.")
LEVEL_NOTE = ("Trusted: Coq kernel + vm_compute; hand models Fsx/Qid.v, QidMap.v, MapperConc.v, Mode.v (tied by differential cases and FsGen "
              "text checks); unix.Major/Minor (x/sys, outside the repo) and os.FileMode bit positions modelled by hand, compared on the "
              "generated inputs only; sequential consistency/atomicity of sync.Map, atomic.Uint64, sync.Mutex. 'Never crashes the server' "
              "(Go's concurrent map write detection) is outside the model: proved is mutual exclusion of every access to Mapper.paths and "
              "FsGen's syntactic guardedness; a crash observed by the harness is reported as a violation. FsGen reads localToQid's "
              "statement sequence (alpha-normalised) and REFUSES any other synchronisation structure (e.g. map + RWMutex): such a change is "
              "reported statically unless the first-lookup probe also observes two paths for one pair (probabilistic, scheduler-dependent).")
DESIGN_REF = "6/C20"
ASSUMPTIONS = [
    "dev and ino are uint64 (< 2^64); fewer than 2^63 fallback allocations and 2^64 NewPath calls (counters do not wrap)",
    "sync.Map Load/LoadOrStore, atomic Add and sync.Mutex are atomic / mutually exclusive (sequential consistency)",
    "unix.Major/Minor and os.FileMode bit positions as modelled (checked on generated inputs)",
]
TRUSTED_BASE = [
    "Coq 8.16.1 kernel, vm_compute (finite mode domain, cases evaluation); no native_compute",
    "axioms: none (Print Assumptions: closed under the global context for every property theorem)",
    "go2coq ConstGen (localfs bit widths, mode and QID type constants) and FsGen (text of encodeLikely, localToQid, QIDFor, NewPath; guardedness of Mapper.paths)",
    "hand-written models Fsx/*.v, tied by harness/fsimpl/localfs/c20_qid_test.go, harness/p9/c20_mode_test.go, harness/fsimpl/qids/c20_mapper_test.go, "
    "harness/fsimpl/composefs/c20_conc_test.go, harness/fsimpl/localfs/c20_info_test.go + Fsx/C20Cases.v",
    "python case translator props/C20.py:to_case (JSON observation -> c20case term; concurrent results deduplicated)",
]


def lst(items):
    """Coq list as nested cons (the [a; b; ...] notation costs over 1 ms per element to parse); long lists in chunks joined by ++"""
    items = list(items)
    if not items:
        return "nil"
    if len(items) > 120:
        chunks = [lst(items[i:i + 120]) for i in range(0, len(items), 120)]
        out = chunks[-1]
        for c in reversed(chunks[:-1]):
            out = "(%s ++ %s)" % (c, out)
        return out
    return "".join("(cons %s " % x for x in items) + "nil" + ")" * len(items)


def t3(rows):
    return lst("(%d, %d, %d)" % (a, b, c) for a, b, c in (rows or []))


def to_case(o):
    k = o["kind"]
    if k == "enc":
        return "CEnc %d %d %s %d" % (o["dev"], o["ino"], coq_bool(o["ok"]), o["q"])
    if k == "hist":
        return "CHist hist0"
    if k == "conc":
        return "CConc hist0 %s" % t3(sorted({tuple(x) for x in o["c"]}))
    if k == "modes":
        return "CModes %d %s" % (o["t"], t3(o["rows"]))
    if k == "fromos":
        return "CFromOS %s" % t3(o["rows"])
    if k == "mapseq":
        return "CMapSeq %s" % t3(o["h"])
    if k == "mapconc":
        return "CMapConc %s %s" % (t3(o["h"]), t3(sorted({tuple(x) for x in o["c"]})))
    if k == "info":
        return "CInfo %s" % lst("(%d, %d, %d, %d, %d, %s, %s)" % (r["stmode"], r["osmode"], r["attrmode"], r["dev"], r["ino"],
                                                                   lst(str(x) for x in r["types"]), lst(str(x) for x in r["paths"]))
                                for r in (o["rows"] or []))
    if k == "fsconc":
        return "CFsConc %s" % lst("(%s, %d)" % (coq_string(n), p) for n, p in sorted({(x["name"], x["path"]) for x in (o["obs"] or [])}))
    raise ValueError(k)


HEADER = ("From P9V Require Import Base.Str Fsx.Readdir Fsx.QidMap Fsx.Qid Fsx.Mode Fsx.C20Cases.\nOpen Scope string_scope.\n"
          "Open Scope N_scope.\nOpen Scope list_scope.\n")

TESTS = (
    ("fsimpl/localfs", "^TestVerifC20Local$", ["vh_fs_common_test.go", "c20_qid_test.go"]),
    ("fsimpl/localfs", "^TestVerifC20Info$", ["vh_fs_common_test.go", "c20_info_test.go"]),
    ("p9", "^TestVerifC20Mode$", ["vh_common_test.go", "c20_mode_test.go"]),
    ("fsimpl/qids", "^TestVerifC20Mapper$", ["vh_fs_common_test.go", "c20_mapper_test.go"]),
    ("fsimpl/composefs", "^TestVerifC20FsConc$", ["vh_fs_common_test.go", "c20_conc_test.go"]),
)

CRASH = re.compile(r"fatal error: concurrent map (?:writes|read and map write|iteration and map write)|WARNING: DATA RACE|panic: ")


def summarize(o):
    k = o["kind"]
    if k == "enc":
        return o
    if k in ("hist", "conc", "mapseq", "mapconc"):
        return {"kind": k, "sequential_calls": len(o.get("h") or []), "concurrent_calls": len(o.get("c") or [])}
    if k == "modes":
        return {"kind": k, "type": oct(o["t"]), "rows": len(o["rows"])}
    if k == "fromos":
        return {"kind": k, "rows": len(o["rows"])}
    if k == "info":
        return {"kind": k, "dir": o.get("dir"), "files": [(r["name"], oct(r["stmode"]), r["types"]) for r in (o["rows"] or [])]}
    return {"kind": k, "observations": len(o.get("obs") or [])}


def witness(o):
    """smallest part of an observation that shows the failure (for the replay file)"""
    k = o["kind"]
    if k in ("hist", "conc", "mapseq", "mapconc"):
        rows = [tuple(x) for x in (o.get("h") or []) + (o.get("c") or [])]
        byk, byv = {}, {}
        for a, b, r in rows:
            if (a, b) in byk and byk[(a, b)] != r:
                return {"same_key_two_paths": {"key": [a, b], "paths": [byk[(a, b)], r]}}
            byk[(a, b)] = r
            if r in byv and byv[r] != (a, b):
                return {"two_keys_one_path": {"path": r, "keys": [list(byv[r]), [a, b]]}}
            byv[r] = (a, b)
    if k == "info":
        return "CInfo %s" % lst("(%d, %d, %d, %d, %d, %s, %s)" % (r["stmode"], r["osmode"], r["attrmode"], r["dev"], r["ino"],
                                                                   lst(str(x) for x in r["types"]), lst(str(x) for x in r["paths"]))
                                for r in (o["rows"] or []))
    if k == "fsconc":
        byk, byv = {}, {}
        for x in o["obs"]:
            n, p = x["name"], x["path"]
            if n in byk and byk[n] != p:
                return {"same_name_two_paths": {"name": n, "paths": [byk[n], p]}}
            byk[n] = p
            if p in byv and byv[p] != n:
                return {"two_names_one_path": {"path": p, "names": [byv[p], n]}}
            byv[p] = n
    if k == "info":
        tab = {0o040000: 128, 0o140000: 64, 0o010000: 64, 0o020000: 64, 0o120000: 2}
        for r in o["rows"]:
            want = tab.get(r["attrmode"] & 0o170000, 0)
            if any(t not in (999, want) for t in r["types"]) or len({p for p in r["paths"] if p != 999}) > 1:
                return {"file": r["name"], "st_mode": oct(r["stmode"]), "expected_qid_type": want,
                        "qid_types[info,walk,getattr,readdir,open]": r["types"], "qid_paths": r["paths"]}
    if k == "modes":
        for p, (os_, back, qt) in enumerate(o["rows"]):
            if back != (o["t"] | p):
                return {"mode": oct(o["t"] | p), "OSMode": os_, "ModeFromOS(OSMode)": oct(back)}
    return None


def eval_shards(ctx, base, texts, prints, timeout=1500, workers=12):
    """coq_eval_shards, with one retry of shards that did not compile: the coq/ tree is shared, and another check
    rebuilding a library while a shard loads it gives a transient 'inconsistent assumptions' error."""
    res = ctx.coq_eval_shards(base, texts, prints, timeout=timeout, workers=workers)
    bad = [i for i, r in enumerate(res) if r is None]
    if bad:
        with vlib.Lock():
            vlib.make_targets(COQ_TARGETS)
        ctx.broken[:] = [b for b in ctx.broken
                         if not (b.get("kind") == "correspondence" and str(b.get("what", "")).startswith("cases/%s_" % base))]
        ctx.note("%d cases shard(s) did not compile; libraries rebuilt, retrying once" % len(bad))
        retry = ctx.coq_eval_shards(base + "_retry", [texts[i] for i in bad], prints, timeout=timeout, workers=workers)
        for i, r in zip(bad, retry):
            res[i] = r
    return res


def rebuild_if_make_flaked(ctx):
    """The coq/ tree and its _CoqProject are shared with checks that add files while this one runs; a make failure
    without any Coq error message (no file/line) is such an infrastructure hiccup: build once more.  A proof that
    really fails reports its file and line and is never retried."""
    flaky = [b for b in ctx.broken if b.get("kind") == "obligation" and b.get("file") == "?"]
    if not flaky:
        return
    ctx.note("make failed without a Coq error (%s); building once more" % str(flaky[0].get("error", ""))[-160:].replace("\n", " "))
    ctx.broken[:] = [b for b in ctx.broken if b not in flaky]
    ctx.build(COQ_TARGETS, PROPERTIES_FILE)


def apply_replay(ctx):
    """--replay FILE: the generators are deterministic in (seed, tier), so re-running the harness with the recorded
    seed and tier reproduces the recorded observation (the replay file also holds it verbatim)."""
    if not ctx.replay:
        return
    import json
    try:
        r = json.load(open(ctx.replay))
    except (OSError, ValueError) as ex:
        ctx.note("cannot read replay file: %r" % ex)
        return
    ctx.seed = int(r.get("seed", ctx.seed))
    if r.get("tier") == "thorough":
        ctx.tier, ctx.thorough = "thorough", True
    ctx.note("replaying seed=%d tier=%s (%s)" % (ctx.seed, ctx.tier, r.get("key")))


def run(ctx):
    import time as _time
    _t0 = _time.time()
    try:
        run1(ctx)
    finally:
        ctx._run_s = _time.time() - _t0


def run1(ctx):
    apply_replay(ctx)
    rebuild_if_make_flaked(ctx)
    obs = []
    from concurrent.futures import ThreadPoolExecutor
    with ThreadPoolExecutor(max_workers=5) as ex:
        futs = [ex.submit(ctx.gotest, pkg, test, files, None, 1200) for pkg, test, files in TESTS]
        results = [f.result() for f in futs]
    for (pkg, test, files), (rc, out, o) in zip(TESTS, results):
        m = CRASH.search(out)
        if rc != 0 and m and "VerifC20" in out:
            ctx.violation("C20:crash:%s" % pkg, "concurrent QID lookups crashed the process (%s)" % m.group(0),
                          {"package": pkg, "test": test, "seed": ctx.seed, "how": "go test -overlay <harness> -run '%s' ./%s" % (test, pkg),
                           "output_tail": out[-2500:]})
        if rc != 0 or not o:
            ctx.harness_broken("harness %s %s failed (rc=%d)" % (pkg, test, rc), out)
            if rc != 0:
                continue
        obs += o
    if not obs:
        return
    hist = next((o for o in obs if o["kind"] == "hist"), None)
    histdef = "Definition hist0 : list (N * N * N) := %s.\n" % t3(hist["h"] if hist else [])
    # shards: greedy by text size; every modes table alone; hist and conc together (they share hist0)
    groups, cur, size = [], [], 0
    order = sorted(range(len(obs)), key=lambda i: (obs[i]["kind"] in ("hist", "conc"), obs[i]["kind"] == "modes", i))
    texts_of = {i: "(%s)" % to_case(obs[i]) for i in range(len(obs))}
    prev = None
    for i in order:
        cls = "h" if obs[i]["kind"] in ("hist", "conc") else "m" if obs[i]["kind"] == "modes" else "x"
        if cur and (cls != prev or cls == "m" or size + len(texts_of[i]) > 150_000):
            groups.append(cur)
            cur, size = [], 0
        cur.append(i)
        size += len(texts_of[i])
        prev = cls
    if cur:
        groups.append(cur)
    texts = []
    for g in groups:
        need_hist = any(obs[i]["kind"] in ("hist", "conc") for i in g)
        texts.append(HEADER + (histdef if need_hist else "") +
                     "Definition cases : list c20case := [\n  %s\n].\n"
                     "Definition M := Eval vm_compute in mismatches cases.\nPrint M.\n"
                     "Definition P := Eval vm_compute in property_failures cases.\nPrint P.\n" % ";\n  ".join(texts_of[i] for i in g))
    res = eval_shards(ctx, "C20_cases", texts, ["M", "P"])
    nm_ = 0
    for g, r in zip(groups, res):
        if r is None:
            continue
        for idx in vlib.coq_nat_list(r["P"]):
            o = obs[g[idx]]
            ctx.violation("C20:%s" % o["kind"], "observed behaviour violates C20: %s" % summarize(o),
                          {"summary": summarize(o), "witness": witness(o), "observation": o if o["kind"] in ("enc",) else None,
                           "how": "re-run the harness test with VERIF_SEED=%d" % ctx.seed})
        for idx in vlib.coq_nat_list(r["M"]):
            o = obs[g[idx]]
            nm_ += 1
            if nm_ <= 5:
                ctx.note("model/implementation disagree on: %s" % str(summarize(o))[:300])
            ctx.broken.append({"kind": "correspondence", "what": "Fsx model disagrees with the implementation (%s)" % str(summarize(o))[:200],
                               "case": summarize(o)})
    kinds = {}
    for o in obs:
        kinds[o["kind"]] = kinds.get(o["kind"], 0) + 1
    if ctx.thorough and not getattr(ctx, "_c20_race_done", False):
        ctx._c20_race_done = True
        race_runs(ctx)
    evals = sum(1 if o["kind"] == "enc" else len(o.get("rows") or []) + len(o.get("h") or []) + len(o.get("c") or []) + len(o.get("obs") or [])
                for o in obs)
    distinct = len({(o["dev"], o["ino"]) for o in obs if o["kind"] == "enc"}) + 7 * 4096 + \
        len({tuple(x) for o in obs if o["kind"] in ("conc", "mapconc", "mapseq") for x in (o.get("h") or []) + (o.get("c") or [])})
    ctx.coverage.update({
        "evaluations": evals,
        "distinct_nontrivial": distinct,
        "rule": "(dev, ino): Mkdev(major, minor) over boundary majors/minors (0, 0xfff, 0x1000, 0xfffff, 2^32-1) x boundary inodes (2^39-1, 2^39, 2^63, 2^64-1), "
                "raw 64-bit devices, random bit lengths; one sequential history with repeats + 16 goroutines on known and fresh pairs; all 7 x 4096 modes; "
                "ModeFromOS on single/double os.FileMode bits and random words; Mapper histories on shared generators + concurrent QIDFor; concurrent "
                "Readdir/Walk/GetAttr through composefs with staticfs and nested mounts; distinct = distinct pairs + mode words + distinct (key, result) rows",
        "correspondence": {"cases": len(obs), "mismatches": nm_, "by_kind": kinds,
                           "gate_probe": [{"rounds": o.get("probe_rounds"), "goroutines_released_together": o.get("probe_workers"),
                                           "rounds_with_two_paths_for_one_file": o.get("probe_disagreements")}
                                          for o in obs if o.get("probe_rounds") is not None]},
        "samples": [o for o in obs if o["kind"] == "enc"][10:13] + [o for o in obs if o["kind"] == "enc" and not o["ok"]][:2]
        + [{"kind": "info", "rows": (o["rows"] or [])[:4]} for o in obs if o["kind"] == "info"]
        + [{"kind": o["kind"], "h": (o.get("h") or [])[:4], "c": (o.get("c") or [])[:4]} for o in obs if o["kind"] in ("conc", "mapconc")][:2]
        + [{"kind": "modes", "t": o["t"], "rows(p=0o4755..0o4757)": o["rows"][0o4755:0o4760]} for o in obs if o["kind"] == "modes"][:1],
    })


RACE_TESTS = (
    ("fsimpl/qids", "^TestVerifC20Mapper$", ["vh_fs_common_test.go", "c20_mapper_test.go"]),
    ("fsimpl/composefs", "^TestVerifC20FsConc$", ["vh_fs_common_test.go", "c20_conc_test.go"]),
    ("fsimpl/localfs", "^TestVerifC20Local$", ["vh_fs_common_test.go", "c20_qid_test.go"]),
)


def race_runs(ctx):
    """Thorough tier, supporting evidence only: the concurrent QID lookups again under the Go race detector."""
    res = []
    for pkg, test, files in RACE_TESTS:
        rc, out, _ = ctx.gotest(pkg, test, files, env={"VERIF_TIER": "quick"}, timeout=1500, race=True)
        if "WARNING: DATA RACE" in out:
            i = out.index("WARNING: DATA RACE")
            ctx.violation("C20:race:%s" % pkg, "the race detector reports a data race during concurrent QID lookups (%s)" % pkg,
                          {"package": pkg, "test": test, "seed": ctx.seed, "how": "go test -race -overlay <harness> -run '%s' ./%s" % (test, pkg),
                           "report": out[i:i + 3000]})
            res.append({"package": pkg, "result": "DATA RACE"})
        elif rc != 0:
            # no C toolchain / race runtime offline: supporting evidence unavailable, never a verdict
            ctx.note("race run of %s not available (rc=%d): %s" % (pkg, rc, out[-200:].replace("\n", " ")))
            res.append({"package": pkg, "result": "unavailable rc=%d" % rc})
        else:
            res.append({"package": pkg, "result": "no race reported"})
    ctx.coverage["race_detector_runs"] = res


def search(ctx):
    """An obligation or the correspondence broke and nothing failing was observed: generate more inputs (further seeds,
    same tier) while ctx.search_budget_s allows; the duration of the run just made is the estimate for one more."""
    import time
    budget = getattr(ctx, "search_budget_s", 150)
    t0 = time.time()
    one = max(15.0, getattr(ctx, "_run_s", 60.0))
    seed0, k = ctx.seed, 0
    while not ctx.violations and k < 4 and time.time() - t0 + one <= budget:
        k += 1
        ctx.seed = seed0 + 1000 * k
        ctx.note("search: further inputs, seed %d" % ctx.seed)
        run(ctx)
    ctx.seed = seed0
