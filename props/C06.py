"""C06 — exactly one tagged reply per request, contiguous frames, no unsolicited reply, concurrent service."""
import vlib
from vlib import coq_bool

ID = "C06"
PROPERTIES_FILE = "Properties/C06.v"
COQ_TARGETS = ["Properties/C06.vo", "Loop/Cases.vo"]
LEVEL = "proof"
TECHNIQUE = ("Coq: small-step interleaving model of handleRequests/handleRequest/StartTag/ClearTag/TagDone/tflush.handle/send "
             "(any number of goroutines, frames, tags, backend delays); inductive invariant over the step relation; "
             "model tied to the source by a generated event-order/lock table (go2coq LoopGen) and to the running code by "
             "gated-backend scenarios evaluated with vm_compute")
LEVEL_TEXT = ("Theorems over ALL interleavings, frame lists and backend behaviours of the model (Loop/Model.v): one reply per accepted request, "
              "reply type, no unsolicited reply, dropped only if the tag was active, tag re-use after ClearTag, contiguous frames, a receiver always "
              "available, intake never blocked by handlers, progress unless waiting for the backend; fid-table mutex: a table operation never waits for the backend "
              "(and does, if a backend call is made inside a critical section); capture without the own-tag guard: an own-tag flush is never answered. Every run re-checks the proofs, re-extracts the "
              "order of events and held mutexes of handleRequest from the source and compares it with the table the model was written against, "
              "and runs the real Server.Handle over net.Pipe (and a fragmenting writer) with a gated backend.")
LEVEL_NOTE = ("True by construction in Loop/Model.v, hence NOT proved there: a reply carries its request's tag (a reply is its "
              "request's log entry; tie_calls shows recv's tag is what StartTag/ClearTag/send get) and its type is the matching R-type or Rlerror; both are "
              "checked on every observed frame (Loop/Cases.v [solicited]: tag, type, exactly once). 'No step cancels, duplicates or suppresses a reply' and 'no "
              "backend call runs outside its handler' are likewise structural in Model.v; Loop/Variants.v widens the model so that they can fail (flags "
              "v_guard / v_detach / v_suppress + ghost lists), proves them for the flag values the code has (faithful variant = Model.v, sound and complete) and "
              "refutes the property for each flipped flag; the flag values are tied to the source by capture_guarded, go/timer/chan-send sites and "
              "reply_path_unconditional. "
              "Trusted: Coq kernel + vm_compute; the hand model is tied to the Go code by LoopGen (syntactic order of events, mutex held, bodies of "
              "StartTag/ClearTag/TagDone/tflush.handle; local identifiers alpha-normalised, so renames do not matter; extracting code of handleRequest into a helper is refused) and by the differential scenarios only; sync.Mutex/channel semantics, sequential consistency; "
              "liveness is 'a server step is enabled' (scheduler fairness assumed). "
              "The clause 'delays only requests that the File contract orders after it': the request loop is in Model.v; fidMu/tagMu are a separate component model "
              "(Loop/FidMu.v, not composed with the loop): with critical sections free of blocking calls - generated table of every call made under fidMu/tagMu in "
              "package p9, compared semantically - a table operation completes in <= 3 server steps with no backend return, and with a backend call inside one every "
              "other request waits (refutation). Observed: unrelated fids and a second connection while a request sits in ReadAt/GetAttr/Walk/Close of a clunked or "
              "replaced fid/Close in another connection's stop; a writer queued behind a blocked reader finishes after the release; connections are a product of "
              "independent loops in the model (Loop/Multi.v); the per-file lock contract itself is C07, server-wide lock order C16.")
DESIGN_REF = "6/C06"
ASSUMPTIONS = [
    "sync.Mutex gives mutual exclusion, channel close/receive and sync/atomic are sequentially consistent",
    "the Go scheduler eventually runs an enabled goroutine (liveness theorems state that a step is enabled)",
    "once the peer has stopped reading, every later Write to that connection fails (no partial recovery); a failed send is only logged by the server",
    "recv/send/handler internals are abstracted: a frame is Bad-conn | Reject tag | Req tag kind; a backend call returns when the environment releases it",
]
TRUSTED_BASE = [
    "Coq 8.16.1 kernel, vm_compute (cases evaluation); no native_compute",
    "axioms: none (Print Assumptions: closed under the global context for every property theorem)",
    "go2coq LoopGen (order of events and held mutexes in handleRequest, send sites, bodies of the tag functions, go/timer/chan-send sites of package p9 and its module imports, calls made under fidMu/tagMu)",
    "hand-written model Loop/Model.v, tied by Loop/Tie.v + harness/p9/c06_loop_test.go, vhloop_*_test.go + Loop/Cases.v",
    "hand-written component model Loop/FidMu.v (programs of critical sections and backend calls), tied by the generated short_sections table only; widened model Loop/Variants.v (ghost lists are specification devices)",
    "the harness' gated, monitored backend, raw frame reader/validator, race-free scenario generator, and the bookkeeping twin that tells the driver how many replies to await in a phase (a wrong twin shows as a hang or as a model mismatch, never as a pass of a wrong reply)",
    "props/C06.py to_case/RTYP: translation of observations into Coq terms (request kind -> matching R-type number)",
]

RTYP = {"read": 117, "write": 119, "clunk": 121, "attach": 105, "getattr": 25, "setattr": 27, "clone": 127, "walk1": 111, "lopen": 13,
        "fsync": 51, "statfs": 9, "readlink": 23, "lock": 53, "xattrwalk": 31, "readdir": 41, "lcreate": 15, "mkdir": 73, "symlink": 17,
        "mknod": 19, "link": 71, "unlinkat": 77, "renameat": 75, "rename": 21}
FILES = ["vh_common_test.go", "vhloop_backend_test.go", "vhloop_driver_test.go"]


def sframe(f):
    k = f["k"]
    if k in RTYP:
        g = "None" if f["gate"] < 0 else "(Some %d)" % f["gate"]
        return "SOp %d %d %s %d" % (f["tag"], RTYP[k], g, f["mode"] if f["gate"] < 0 else 0)
    if k == "flush":
        return "SFlush %d %d" % (f["tag"], f["old"])
    if k == "badtype":
        return "SReject %d" % f["tag"]
    if k == "short":
        return "SReject 65535"
    if k == "rmsg":
        return "SOp %d 7 None 1" % f["tag"]
    raise ValueError(k)


def to_case(o):
    steps = []
    for st in o["scn"]["steps"]:
        if st["op"] == "send":
            steps.append("SSend %d%%nat [%s]" % (st.get("conn", 0), "; ".join(sframe(f) for f in (st.get("frames") or []))))
        elif st["op"] == "release":
            steps.append("SRelease %d %d" % (st["gate"], st["mode"]))
        elif st["op"] == "break":
            steps.append("SBreak %d%%nat" % st.get("conn", 0))
        elif st["op"] == "hangup":
            steps.append("SHangup %d%%nat" % st.get("conn", 0))
        elif st["op"] == "hold":
            steps.append("SRelease 0 0")  # nothing happens in the model: no request is held at gate 0
        else:
            raise ValueError(st["op"])
    phases = ["[%s]" % "; ".join("(%d, %d)" % (r["tag"] + 65536 * r.get("conn", 0), r["typ"]) for r in ph["replies"]) for ph in o["phases"]]
    allr = [r for ph in o["phases"] for r in ph["replies"]] + list(o["trailing"])
    clean = o["left"] == 0 and not o["bad"] and not o["trailing"]
    valid = all(r["valid"] for r in allr)
    early = any(r.get("inside") or r.get("premature") or r.get("late") for r in allr)
    return "CScn [%s] [%s] %s %s %s %s %s %s" % ("; ".join(steps), "; ".join(phases), coq_bool(o["setup"]), coq_bool(o["hung"]),
                                               coq_bool(o["returned"]), coq_bool(clean), coq_bool(valid), coq_bool(early))


def why(o):
    """human-readable reason for a failing observation"""
    out = []
    if not o["setup"]:
        out.append("handshake not answered")
    if o["hung"]:
        for i, ph in enumerate(o["phases"]):
            if ph["missing"] or ph["stall"] or ph["noenter"]:
                out.append("phase %d: %d expected replies missing after 3 x 1 s%s%s" % (
                    i, ph["missing"], ", server stopped reading" if ph["stall"] else "",
                    ", gated requests never reached the backend: %s" % ph["noenter"] if ph["noenter"] else ""))
    if not o["returned"]:
        out.append("Server.Handle did not return after the peer closed")
    if o["left"] or o["bad"] or o["trailing"]:
        out.append("byte stream is not a sequence of whole frames / frames after the last phase")
    allr = [r for ph in o["phases"] for r in ph["replies"]]
    if not all(r["valid"] for r in allr):
        out.append("malformed (torn) reply frame")
    for r in allr:
        if r.get("premature"):
            out.append("Rflush(tag %d) arrived before the gate the flushed request is blocked at was released" % r["tag"])
        if r.get("inside"):
            out.append("Rflush(tag %d) arrived while a backend call made on behalf of the flushed request was still running" % r["tag"])
        if r.get("late"):
            out.append("a backend call made on behalf of the flushed request began after Rflush(tag %d) had arrived" % r["tag"])
    return "; ".join(out) or "reply multiset: a request answered twice / not at all / unsolicited reply / wrong type"


RULES = {
    "C06": "scripted scenarios against the real Server.Handle with a gated, fully monitored backend: fixed corpus (flush shapes, duplicate/re-used and boundary tags "
           "0/0xFFFE/0xFFFF, rejected frames, backend error/panic, a request blocked in ReadAt/WriteAt/FSync/GetAttr/SetAttr/Walk/Close (clunk, replaced fid, stop of "
           "another connection) with unrelated traffic on other fids and on a second connection, a writer queued behind a blocked reader, peer stops reading, peer hangs "
           "up), batches of 2-4 with every release order, batches of 8-64 with random release order and immediate tag re-use, bursts with undecodable frames, race-free "
           "random scripts; some over the fragmenting writer",
    "C14": "scripted scenarios against the real Server.Handle with a gated, fully monitored backend (every File method records enter/exit): flush of own / idle / "
           "answered / later / other-connection tag, two flushes naming each other, 1-3 and chained flushes of one or two blocked requests with every release order "
           "and mode (ok, error, panic), boundary tags 0/0xFFFE/0xFFFF for the flushed request and for the flush, the flushed request ranging over 23 request kinds "
           "(read, write, fsync, getattr, setattr, clone, walk, lopen, readdir, readlink, statfs, lock, xattrwalk, lcreate, mkdir, symlink, mknod, link, unlinkat, "
           "renameat, rename, clunk, attach onto an occupied fid), gates held shut for 200 ms, every corpus scenario also over the fragmenting writer, flush-heavy "
           "race-free random scripts (gated reads and writes)",
}


def nontrivial(o):
    """a scenario that exercises the property: something is blocked, flushed, rejected, dropped or sent concurrently"""
    fr = [f for st in o["scn"]["steps"] for f in (st.get("frames") or [])]
    return any(f["gate"] >= 0 or f["k"] in ("flush", "badtype", "short", "rmsg") for f in fr) or any(len(st.get("frames") or []) > 1 for st in o["scn"]["steps"])


def run_loop(ctx, pid, test, files, shard=40, seed=None):
    rc, out, obs = ctx.gotest("p9", "^%s$" % test, FILES + files, timeout=600 if ctx.thorough else 240,
                              env=({"VERIF_SEED": seed} if seed is not None else None))
    obs = [o for o in obs if o.get("kind") == "scn"]
    if rc != 0 or not obs:
        ctx.harness_broken("harness %s failed (rc=%d)" % (test, rc), out)
        if not obs:
            return
    # big scenarios are expensive for the model: spread them over the shards
    order = sorted(range(len(obs)), key=lambda i: -sum(len(s.get("frames") or []) for s in obs[i]["scn"]["steps"]))
    nshard = max(1, (len(obs) + shard - 1) // shard)
    shards = [order[i::nshard] for i in range(nshard)]
    texts = []
    for idxs in shards:
        cases = ";\n  ".join("(%s)" % to_case(obs[i]) for i in idxs)
        texts.append("From Coq Require Import NArith List.\nFrom P9V Require Import Loop.Model Loop.Cases.\nImport ListNotations.\nOpen Scope N_scope.\n"
                     "Definition cases : list lcase := [\n  %s\n].\n"
                     "Definition M := Eval vm_compute in mismatches cases.\nPrint M.\n"
                     "Definition P := Eval vm_compute in property_failures cases.\nPrint P.\n" % cases)
    res = ctx.coq_eval_shards("%s_cases" % pid, texts, ["M", "P"], timeout=900)
    nm = 0
    failing = []
    for si, r in enumerate(res):
        if r is not None:
            failing += [shards[si][idx] for idx in vlib.coq_nat_list(r["P"])]
    # smallest failing scenario first (it becomes replay-0)
    failing.sort(key=lambda i: (sum(len(s.get("frames") or []) for s in obs[i]["scn"]["steps"]), i))
    for i in failing:
        if True:
            o = obs[i]
            ctx.violation("%s:%s" % (pid, o["scn"]["name"].split("-")[0].rstrip("0123456789")),
                          "observed behaviour violates %s in scenario %s: %s" % (pid, o["scn"]["name"], why(o)),
                          {"scn": o["scn"], "observed": {k: o[k] for k in ("phases", "trailing", "left", "bad", "returned", "hung", "setup")},
                           "frames": [f for st in o["scn"]["steps"] for f in (st.get("frames") or [])]})
    for si, r in enumerate(res):
        if r is None:
            continue
        for idx in vlib.coq_nat_list(r["M"]):
            o = obs[shards[si][idx]]
            nm += 1
            if nm <= 5:
                ctx.note("model/implementation disagree on scenario %s" % o["scn"]["name"])
            ctx.broken.append({"kind": "correspondence", "what": "Loop/Model.v disagrees with the implementation (scenario %s)" % o["scn"]["name"],
                               "case": {"scn": o["scn"], "phases": o["phases"]}})
    nfr = [sum(len(s.get("frames") or []) for s in o["scn"]["steps"]) for o in obs]
    nrep = sum(len(ph["replies"]) for o in obs for ph in o["phases"])
    distinct = len({str(o["scn"]["steps"]) + str(o["scn"]["frag"]) + str(o["scn"].get("kinds")) for o in obs if nontrivial(o)})
    fl = [r for o in obs for ph in o["phases"] for r in ph["replies"] if r["typ"] == 109]
    kinds = {}
    for o in obs:
        for st in o["scn"]["steps"]:
            for f in (st.get("frames") or []):
                kinds[f["k"]] = kinds.get(f["k"], 0) + 1
    def pick(pred):
        return next((o for o in obs if pred(o)), obs[0])
    ctx.coverage.update({
        "evaluations": len(obs),
        "distinct_nontrivial": distinct,
        "distinct_nontrivial_means": "distinct scripts (steps + writer + fid layout) in which something is blocked, flushed, rejected, dropped or sent back to back",
        "rule": RULES[pid],
        "correspondence": {"cases": len(obs), "mismatches": nm, "frames_sent": sum(nfr), "max_frames_in_a_scenario": max(nfr), "replies_seen": nrep,
                           "frames_by_kind": kinds, "rflush_seen": len(fl),
                           "rflush_whose_target_was_held_at_a_gate": sum(1 for r in fl if r["target"] >= 0),
                           "rflush_premature_or_inside_or_late": sum(1 for r in fl if r.get("premature") or r.get("inside") or r.get("late")),
                           "two_connection_scenarios": sum(1 for o in obs if o["scn"].get("nconn", 1) > 1),
                           "fragmenting_writer_scenarios": sum(1 for o in obs if o["scn"]["frag"])},
        "samples": [
            {"what": "chained flushes of a blocked request", "obs": pick(lambda o: o["scn"]["name"].startswith("chain") or o["scn"]["name"] == "flush-gated")},
            {"what": "largest scenario (script only)", "scn": max(obs, key=lambda o: len(o["scn"]["steps"]))["scn"]["name"],
             "steps": len(max(obs, key=lambda o: len(o["scn"]["steps"]))["scn"]["steps"])},
            {"what": "a random script", "obs": pick(lambda o: o["scn"]["name"].startswith("rand"))},
        ],
    })


def run(ctx):
    run_loop(ctx, "C06", "TestVerifC06", ["c06_loop_test.go"])


def search_loop(ctx, pid, test, files):
    """An obligation (e.g. a table of Loop/Tie.v) or the correspondence broke and nothing was observed:
    look for a concrete failing scenario within ctx.search_budget_s - fresh seeds of the generator
    (each run also repeats the fixed corpus), the thorough budget only in the thorough tier."""
    import time
    t0 = time.time()
    budget = getattr(ctx, "search_budget_s", 150)
    if ctx.thorough:
        return
    k = 0
    while not ctx.violations and time.time() - t0 < budget * 0.45 and k < 3:
        k += 1
        run_loop(ctx, pid, test, files, seed=ctx.seed + 1000 * k)


def search(ctx):
    search_loop(ctx, "C06", "TestVerifC06", ["c06_loop_test.go"])
