"""C11 — chunked I/O: ReadAt/WriteAt of any size equal one remote operation."""
import vlib
from vlib import coq_bool

ID = "C11"
PROPERTIES_FILE = "Properties/C11.v"
COQ_TARGETS = ["Properties/C11.vo", "Client/ChunkCases.vo"]
LEVEL = "proof"
TECHNIQUE = ("Coq theorems (induction on the chunk loop with an invariant, for every buffer/offset/chunk size/file/backend tape) over a "
             "hand-written Gallina model of chunk/readAt/writeAt; the loop of chunk is TRANSLATED from client_file.go by go2coq ArithGen on every run and proved equal to the model for all inputs (C11_source_loop_is_model); differential cases evaluated with vm_compute")
LEVEL_TEXT = ("Theorems for all buffer lengths, chunk sizes >= 1, offsets 0 <= off, off+len < 2^63, remote files and tapes of backend answers "
              "(short counts and errors on any chunk) about an executable model of chunk(), readAt and writeAt; every run re-checks the proofs "
              "and compares the model with the real chunk() (scripted fn, including over-reporting and the panic) and with Client.ReadAt/WriteAt "
              "through the real client, the real server and a sparse in-memory backend (msize 154 .. 1 MiB, offsets at/after EOF and above 2^32).")
LEVEL_NOTE = ("Trusted: Coq kernel + vm_compute; go2coq ArithGen (translates the pieces of chunk -- empty-buffer test, statements before the call of fn, slice and offset handed to fn, statements after -- into Gallina over Z with int/int64 wrap-around; checks the loop skeleton `for { ... }` around ONE call of fn syntactically and refuses anything else); Client/ChunkTie.v proves gen_chunk = Chunk.chunk for every chunk size 1..2^32-1, length < 2^62, offset, fn (reporting < 2^62) and state, so the theorems are about the loop in the source; readAt/writeAt (the per-chunk functions) remain a hand model tied by the differential cases; concurrent reads on one connection after a zero-byte EOF read are judged by the harness itself (CFilled); for msize >= 2201 "
              "the end-to-end comparison is at length level (requests, counts, result) and the content check is done by the harness in Go (for runs longer than 30000 bytes also the 'fills p up to end of file / n = len p' "
              "check; for all other runs it is ChunkCases.fills_to_eof, judged on the backend's log against the file); "
              "one Twrite/Tread is modelled as seen by the client (count or error): an Rlerror carries no count, so a backend that stores bytes "
              "and also fails is outside the write theorem; a server that returns more than asked is outside the property.")
DESIGN_REF = "6/C11"
ASSUMPTIONS = [
    "payloadSize >= 1 (NewClient refuses msize <= 153, see C12)",
    "0 <= offset and offset + len(p) < 2^63 (no int64 wrap of the running offset)",
    "C11_write ('stores exactly p[:n]') assumes that a Twrite answering an error has stored nothing; C11_write_general covers a backend that stores and fails (file = p[:x], n <= x)",
    "a reply never reports more bytes than were asked for; one Twrite(k accepted) has stored exactly the first k bytes of its chunk at its offset; one Tread returns bytes of the file at its offset",
]
TRUSTED_BASE = [
    "Coq 8.16.1 kernel, vm_compute (cases evaluation); no native_compute",
    "axioms: none (Print Assumptions: closed under the global context for every property theorem)",
    "hand-written model Client/Chunk.v, tied by go2coq ArithGen + Client/ChunkTie.v (chunk) and by harness/p9/c11_test.go + Client/ChunkCases.v (readAt/writeAt, end to end)",
    "go2coq ArithGen (tools/go2coq/arithgen.go): its translation of Go statements/expressions to Gallina is trusted; cross-checked by the differential on the real chunk()",
    "Fs/Version.v payload_of (C12) for the payload size of a negotiated msize",
    "props/C11.py to_case (tape encoding: WErrStored from the 'stored' flag, 'big' = len p + cs + 1 standing for 'all'), harness twins: vh11File (sparse backend), "
    "vh11PatternAC + ChunkCases.pattern (the same byte pattern generated twice), vhclVerConn/vhclPairGrant (granted msize forced by rewriting the Rversion frame), Go-side content check of runs > 30000 bytes",
]


def nat(x):
    return "%d%%nat" % x if x < 2000 else "(N.to_nat %d%%N)" % x


def err(e):
    k = e["k"]
    if k == "nil":
        return "None"
    if k == "eof":
        return "(Some CEOF)"
    if k == "errno":
        return "(Some (CErrno %d%%N))" % e["n"]
    return "(Some CConn)"


def bl(a):
    return "[" + "; ".join(str(x) for x in a) + "]%N" if a else "[]"


def zz(n):
    return "(%d)%%Z" % n


def ocalls(cs):
    return "[" + "; ".join("(%s, %s, %s, %s)" % (zz(c["off"]), nat(c["len"]), nat(c["n"]), err(c["err"])) for c in (cs or [])) + "]"


def ftape(o):
    return "[" + "; ".join("(%d%%N, %s)" % (a["n"], err(a["err"])) for a in (o["tape"] or [])) + "]"


def fcalls(o):
    return "[" + "; ".join("(%d%%N, %d%%N, %s)" % (c["pos"], c["len"], zz(c["off"])) for c in (o["calls"] or [])) + "]"


def to_case(o):
    k = o["kind"]
    if k == "filled":
        return "CFilled %s" % ("true" if o["ok"] else "false")
    if k == "payload":
        return "CPayload %d%%N %d%%N" % (o["msize"], o["cs"])
    if k == "bigwrite":
        return "CBigW %d%%N %d%%N %d%%N %d%%N %d%%N %s %s %d%%N %d%%N %s %s %s %s" % (
            o["msize"], o["cs"], o["pa"], o["pc"], o["lenp"], zz(o["off"]), ftape(o), o["stored"], max(o["n"], 0), err(o["err"]), fcalls(o),
            zz(o["wstart"]), bl(o["window"]))
    if k == "bigread":
        return "CBigR %d%%N %d%%N %d%%N %d%%N %d%%N %s %s %d%%N %d%%N %d%%N %s %d%%N %s %s %s" % (
            o["msize"], o["cs"], o["pa"], o["pc"], o["lenp"], zz(o["off"]), zz(o["base"]), o["fa"], o["fc"], o["flen"], ftape(o),
            max(o["n"], 0), err(o["err"]), fcalls(o), bl(o["buf_after"]))
    if k == "direct":
        tape = "[" + "; ".join("(%d%%N, %s)" % (a["n"], err(a["err"])) for a in (o["tape"] or [])) + "]"
        calls = "[" + "; ".join("(%d%%N, %d%%N, %s)" % (c["pos"], c["len"], zz(c["off"])) for c in (o["calls"] or [])) + "]"
        return "CDirect %d%%N %d%%N %s %s %s %d%%N %s %s %s" % (o["cs"], o["lenp"], zz(o["off"]), tape, coq_bool(o["panicked"]), max(o["n"], 0),
                                                               err(o["err"]), calls, coq_bool(o["content_ok"]))
    big = len(o["p"]) + o["cs"] + 1
    if k == "write":
        tape = "[" + "; ".join(("WErrStored %s %s" % (nat(a["n"] if a["n"] >= 0 else big), err(a["err"])[6:-1])) if a.get("stored") else
                               ("WErr %s" % err(a["err"])[6:-1]) if a["err"]["k"] != "nil" else "WCount %s" % nat(a["n"] if a["n"] >= 0 else big)
                               for a in (o["tape"] or [])) + "]"
        return "CWrite %d%%N %d%%N %s %s %s %s %s %s %s %s %s %s %s" % (
            o["msize"], o["cs"], bl(o["p"]), zz(o["off"]), zz(o["base"]), bl(o["file0"]), tape, nat(o["n"]), err(o["err"]), ocalls(o["calls"]),
            zz(o["wstart"]), bl(o["window"]), zz(o["size_after"]))
    if k == "read":
        tape = "[" + "; ".join(("RErr %s" % err(a["err"])[6:-1]) if a["err"]["k"] != "nil" else "RCount %s" % nat(a["n"] if a["n"] >= 0 else big)
                               for a in (o["tape"] or [])) + "]"
        return "CRead %d%%N %d%%N %s %s %s %s %s %s %s %s %s" % (
            o["msize"], o["cs"], bl(o["p"]), zz(o["off"]), zz(o["base"]), bl(o["file0"]), tape, nat(o["n"]), err(o["err"]), ocalls(o["calls"]),
            bl(o["buf_after"]))
    raise ValueError(k)


HEADER = ("From Coq Require Import ZArith NArith List.\nFrom P9V Require Import Client.Chunk Client.ChunkCases.\nImport ListNotations.\n"
          "Definition cases : list c11case := [\n  %s\n].\n"
          "Definition M := Eval vm_compute in mismatches cases.\nPrint M.\n"
          "Definition P := Eval vm_compute in property_failures cases.\nPrint P.\n")


def run(ctx):
    rc, out, obs = ctx.gotest("p9", "^TestVerifC11$", ["vh_common_test.go", "vhcl_common_test.go", "vhread_probe_test.go", "c11_test.go"], timeout=900)
    if rc != 0 or not obs:
        ctx.harness_broken("harness TestVerifC11 failed (rc=%d)" % rc, out)
        if not obs:
            return
    # one payload case per distinct (msize, payload size)
    seen, keep = set(), []
    for o in obs:
        if o["kind"] == "payload":
            k = (o["msize"], o["cs"])
            if k in seen:
                continue
            seen.add(k)
        keep.append(o)
    obs = keep
    # shards of bounded text size
    shards, cur, size = [], [], 0
    for i, o in enumerate(obs):
        t = "(%s)" % to_case(o)
        # unary numbers make the long length-level runs expensive: weigh them
        w = len(t) + (o.get("lenp", 0) // 2 if o["kind"] == "direct" else 0)
        if cur and (size + w > 200000 or len(cur) >= 200):
            shards.append(cur)
            cur, size = [], 0
        cur.append((i, t))
        size += w
    if cur:
        shards.append(cur)
    texts = [HEADER % ";\n  ".join(t for _, t in sh) for sh in shards]
    res = ctx.coq_eval_shards("C11_cases", texts, ["M", "P"], workers=12)
    nm = 0
    kinds = {}
    for o in obs:
        kk = o["kind"] + ("/" + o["sub"] if "sub" in o else "")
        kinds[kk] = kinds.get(kk, 0) + 1
    for sh, r in zip(shards, res):
        if r is None:
            continue
        for idx in vlib.coq_nat_list(r["P"]):
            o = obs[sh[idx][0]]
            ctx.violation("C11:%s" % o["kind"], "observed ReadAt/WriteAt behaviour violates C11 (%s)" % o["kind"], o)
        for idx in vlib.coq_nat_list(r["M"]):
            o = obs[sh[idx][0]]
            nm += 1
            if nm <= 5:
                ctx.note("model/implementation disagree on: %s" % str(o)[:600])
            ctx.broken.append({"kind": "correspondence", "what": "Client/Chunk.v disagrees with the implementation (%s)" % o["kind"],
                               "case": {k: (v if not isinstance(v, list) or len(v) < 64 else v[:64] + ["..."]) for k, v in o.items()}})
    small = lambda o: {k: (v if not isinstance(v, list) or len(v) < 24 else v[:24] + ["..."]) for k, v in o.items()}
    distinct = len({str(sorted((k, str(v)) for k, v in o.items() if k != "id")) for o in obs})
    multi = sum(1 for o in obs if len(o.get("calls") or []) > 1)
    ctx.coverage.update({
        "evaluations": len(obs),
        "distinct_nontrivial": distinct,
        "rule": "chunk() direct: chunk sizes 1..16 x lengths k*cs+-1 x offsets {0,5,2^32+3,2^62} + random (short counts, errors with and without count, "
                "EOF, over-reporting); end to end: msize {154..1177} with content in Coq, msize {2201, 4096, 8192, 65536, 131072 (chunks of 130560 bytes > 65535), 1 MiB (two combinations in the quick tier; +4097, 1 MiB+1 and all "
                "combinations thorough)} at length level with the largest measured chunk recorded below, lengths k*payload+-1, "
                "offsets 0/inside/at EOF/after EOF/>2^32/>2^40, tapes: none, one short count, one error, several short counts; distinct = distinct records",
        "correspondence": {"cases": len(obs), "mismatches": nm, "by_kind": kinds, "multi_chunk_runs": multi,
                           "largest_chunk_issued": max([c.get("len", 0) for o in obs for c in (o.get("calls") or [])] + [0]),
                           "largest_msize": max([o.get("msize", 0) for o in obs] + [0])},
        "samples": [small(next(o for o in obs if o["kind"] == "bigwrite")),
                    small(next(o for o in obs if o["kind"] == "direct" and len(o["calls"] or []) > 2)),
                    small(next(o for o in obs if o["kind"] == "write" and len(o["calls"] or []) > 1)),
                    small(next(o for o in obs if o["kind"] == "read" and len(o["calls"] or []) > 1))],
    })


def search(ctx):
    """Obligation or correspondence broken and no observed failure: look further within ctx.search_budget_s."""
    if ctx.thorough:
        return
    if getattr(ctx, "search_budget_s", 900) >= 600:
        ctx.tier = "thorough"
        ctx.thorough = True
    else:
        ctx.seed += 7919            # quick budget: one more quick pass with another seed
    run(ctx)
