"""C04 — session state machine: fid binding, open state and mode checks."""
import vlib
import vsrv

ID = "C04"
PROPERTIES_FILE = "Properties/C04.v"
COQ_TARGETS = ["Properties/C04.vo", "Server/Cases.vo"]
LEVEL = "proof"
TECHNIQUE = ("Coq refinement theorem between a Gallina transcription of every handler of p9/handlers.go (Server/Handlers.v, all oracle tapes) "
             "and a short session specification (Server/SessionSpec.v); model tied to the code by go2coq HandlerGen summaries and by a "
             "lock-step differential against the real server with a scripted recording backend")
LEVEL_TEXT = ("Theorems over all states, requests and backend answer tapes (hence all histories): the model's reply class and fid bindings "
              "follow the session specification; read off: EBADF on unbound fids, clunk/remove always unbind, newfid bound only on success, "
              "I/O needs a compatible open mode, open once / openable types / directories read-only, opened-directory refusals, no auth. "
              "'A fid opens at most once' also for requests in flight together: any number of Tlopen on one fid, every interleaving (Server/OpenPar.v, C04_open_once_interleaved; "
              "refuted for the check-then-lock order; the lock position is read from the source). "
              "Every run re-checks the proofs, regenerates the handler summaries from the Go source and compares model and real server on generated histories.")
LEVEL_NOTE = ("Trusted: Coq kernel + vm_compute; the hand model Server/{State,Msg,Handlers}.v is tied to the Go code by HandlerGen.v "
              "(guards, errnos, name checks, lookups, backend calls read from the syntax) and by the differential only. Sequential histories, except the open-once clause: "
              "Server/OpenPar.v is a separate small interleaving model of tlopen.handle's critical section (hand-written; tied by the source obligation tlopen_locks_before_guards and by "
              "overlapped Tlopen pairs on the real server with a gated File.Open, judged by par_agrees/par_ok); other in-flight overlap is C05/C07. The literal parts of Server/Summaries.v model_traces are a hand-reviewed transcript of the alpha-normalised "
              "source traces (only the guard sequences are rendered from the model's guard table); a rename of a local variable does not change the tables. "
              "The whole-request refinement C04_refines holds for every request kind under Inv2 (ledger, injective fid table, path-tree structure), proved for every history.")
DESIGN_REF = "6/C04"
ASSUMPTIONS = [
    "requests are handled one at a time (lock-step), except overlapping Tlopen on one fid (OpenPar.v); other overlapping requests are C05/C07",
    "sync.Mutex provides mutual exclusion (OpenPar.v models openMu as a boolean)",
    "B1: a successful Walk/WalkGetAttr/Create/Attach returns a File not returned before (the scripted backend does)",
    "B2: RenameAt never succeeds into the moved entry's own subtree (the generator never asks for it)",
]
TRUSTED_BASE = [
    "Coq 8.16.1 kernel, vm_compute (cases evaluation, generated-table checks)",
    "axioms: none",
    "go2coq HandlerGen + ConstGen",
    "hand-written model Server/State.v, Msg.v, Handlers.v, OpenPar.v; harness/p9/vhsrv_*_test.go (scripted backend, lock-step peer, gate), c04_hist_test.go",
    "lib/vsrv.py (python translation of observed histories / overlaps into Coq cases)",
]
WHICH = "P04"
TEST = "^TestVerifC04$"
FILES = vsrv.HARNESS_FILES + ["c04_hist_test.go"]


def run(ctx):
    rc, out, obs = ctx.gotest("p9", TEST, FILES, timeout=1500)
    if rc != 0 or not obs:
        ctx.harness_broken("harness %s failed (rc=%d)" % (TEST, rc), out)
        return
    hists = [h for h in obs if h.get("kind") == "hist"]
    for h in hists:
        if h.get("broken"):
            ctx.harness_broken("history %s: the server stopped answering (%s)" % (h["id"], h["broken"]), str(h["steps"][-1:])[:1500])
    good = [h for h in hists if h["steps"]]
    pars = [h for h in obs if h.get("kind") == "par"]
    for h in pars:
        if not h.get("gated"):
            ctx.harness_broken("overlap %s: the first Tlopen never reached the gated File.Open (or the server stopped answering)" % h.get("id"), str(h)[:1500])
    pars = [h for h in pars if h.get("gated")]
    nm, nf = vsrv.evaluate(ctx, ID + "_cases", good + pars, WHICH)
    st, distinct = vsrv.stats(good)
    st["overlaps"] = len(pars)
    ctx.coverage.update({
        "evaluations": st["steps"],
        "distinct_nontrivial": distinct,
        "rule": "fixed boundary histories (incl. Tlopen on fids of every recorded type: xattr fid, mode without type bits, unknown type, symlink, socket, fifo, devices) + 4 overlapped Tlopen pairs "
                "(second sent while the first is inside the gated File.Open; first Open succeeding / failing) + generated histories (20-60 requests, two connections, small fid/name alphabet, fid re-use, clunked fids, "
                "xattr read/write, Tauth, auth-fid attach, every request type, hostile names); " + vsrv.DISTINCT_RULE,
        "correspondence": {"cases": st["steps"], "mismatches": nm, "property_failures": nf, "distribution": st},
        "samples": vsrv.samples(good),
    })


def search(ctx):
    # thorough re-run only when the driver grants the time for it (ctx.search_budget_s)
    if ctx.thorough or getattr(ctx, "search_budget_s", 0) < 600:
        return
    ctx.tier = "thorough"
    ctx.thorough = True
    run(ctx)
