"""C05 — File lifecycle: every File closed exactly once, never used after Close, also on disconnect."""
import refs_cases

ID = "C05"
PROPERTIES_FILE = "Properties/C05.v"
COQ_TARGETS = ["Properties/C05.vo", "Refs/Cases.vo", "Refs/RefProofs.vo", "Refs/RefStep.vo", "Refs/LifeProofs.vo", "Refs/LifeStep.vo", "Refs/ErrPaths.vo", "Refs/Disconnect.vo", "Refs/Ordered.vo", "Refs/Ranked.vo", "Refs/RankedFs.vo", "Refs/FenceProofs.vo", "Refs/GenTie.vo"]
LEVEL = "proof"
TECHNIQUE = ("Coq theorems (all backends, all states) over a hand-written sequential Gallina model of fidRef reference counting, the DecRef "
             "cascade, the fid tables and connState.stop; model tied to the code by a differential against the real Server.Handle driven "
             "over net.Pipe with a counting, failure-injecting, path-addressed backend; lifecycle predicate evaluated on the observed call log; "
             "static tie: go2coq/RefsGen extracts the event skeletons (calls, order, path conditions incl. early returns, closure/defer/loop "
             "context) of DecRef, notifyDelete, markChildDeleted, notifyNameChange, renameChildTo, stop, LookupFID/InsertFID/DeleteFID and doWalk and Coq checks them equal to a table reviewed against the model")
LEVEL_TEXT = ("Proved in Coq by induction over ALL request histories from the initial state, for EVERY backend (every success/failure choice "
              "of every backend call): C05_inv (refs = #fid-table entries + #transient holders + #live children + #live xattr borrowers; the DecRef "
              "cascade never runs out of fuel - no acyclicity needed), File ownership (every returned handle owned by exactly one fidRef, xattr fidRefs "
              "borrow), C05_closed_once, C05_closed_iff_unreferenced, C05_no_use_after_close for every File method incl. Renamed, C05_error_paths "
              "for Twalk/Twalkgetattr and Tattach (every failing component, every reason). C05_disconnect (after the stop of every connection "
              "holding a fid no fid is bound and every File ever returned is closed exactly once): proved without hypothesis for every backend "
              "and every history without Trename/Trenameat (C05_disconnect_rename_free) and for EVERY PathFS history, renames included "
              "(C05_disconnect_pathfs: assumption B2 is discharged from the backend's own refusal, pathB's path coherence and C08_tree_inv; the "
              "path-tree panics are excluded); for an arbitrary backend under the condition [rsafe] on its renames (C05_disconnect_rsafe); "
              "C05_disconnect_refuted shows by computation that without B2 two fidRefs become each other's parent and their Files leak. Every run "
              "re-checks the proofs, replays generated histories on the real server (failure injected at every backend-call index of the corpus, "
              "connection cut after every byte of short sessions, fid replacement, xattr fids, create-rebinding) plus gated concurrent scenarios "
              "(rename while a child's last DecRef is parked in Close; rename whose Renamed callback overlaps a disconnect) and a fault scenario "
              "(backend panic inside the Renamed notification one / two levels below a renamed directory, then every connection dropped), evaluates the stated "
              "clauses on the observed backend call log independently of the model, and compares replies, call logs and the path tree with the model.")
LEVEL_NOTE = ("What is what. PROVED for the model (history theorems, every backend): count invariant, closed at most once, closed iff "
              "unreferenced, no call on a File after its Close (as receiver or argument, Renamed included), failing walk/attach closes what it "
              "opened, disconnect as stated in the level text. ONE-REQUEST theorems (any state satisfying the invariant; not history theorems): "
              "C05_inv_step, C05_cascade, C05_fuel_suffices, C05_stop_empties_table; C05_walk_one_handles and the primitive theorems are one-step "
              "unfoldings of the model's walkOne / primitives. TESTED on the real code on every run (Cases.property_holds, evaluated on the observed "
              "call log only, no model involved): no File used after its Close or closed twice; after a complete disconnect every File closed "
              "exactly once, Handle returned, goroutine delta 0; a Twalk/Tattach answered with an error has closed every File it was handed. A "
              "history on which the implementation and the model disagree (replies, per-request call log, path-tree dump) is reported as a "
              "VIOLATION with that history as replay. Backend PANICS are outside the model (no panic answer): the disconnect clause after a panic inside a rename notification is tested by the fault scenario and its code-side mechanism (deferred release of the held references) is pinned by C05_held_references_released_by_defer, not proved. NOT covered: interleavings beyond the gated scenarios (sequential model; C06/C07/C16), B2 for "
              "backends other than PathFS (hypothesis [rsafe]: relating a backend's notion of 'below' to the server's tree is path coherence, "
              "proved for PathFS only), the Tattach branch !valid.Mode (same exit as a GetAttr error). The harness reads unexported fields "
              "(pathNode.childRefs/childRefNames/childNodes/deleted, fidRef.file, server.pathTree): renaming one breaks its compilation and is "
              "reported as a violation. STATIC TIE (C05_code_skeleton, C05_decref_drops_parent_unconditionally, C05_clone_takes_parent_reference): "
              "the generated event skeletons of the ten functions equal a table reviewed by hand against Refs/Model.v - an equality with a reviewed "
              "table, not a semantics of Go; it is invariant under renaming locals, error re-wrapping, inverted guards with early return and "
              "a && b vs nested ifs, and changes when one of the tracked calls is dropped, added, reordered or re-guarded. Everything else of the "
              "model (the handlers' guards, fid tables, walkOne, removeWithName's loop) is tied to the Go code by the differential only.")
DESIGN_REF = "6/C05"
ASSUMPTIONS = [
    "requests of all connections are processed one at a time (sequential model); Go map iteration order only permutes Renamed/Close runs",
    "B2: a successful RenameAt never moves a directory into itself or a descendant (else parent chains become cyclic and Files leak); enforced by the harness backend, hypothesis (no_cycle flag / fuel) of the disconnect theorem",
    "names are compared by equality only (name ids in the model; checkSafeName is C09)",
]
TRUSTED_BASE = [
    "Coq 8.16.1 kernel, vm_compute (cases evaluation); no native_compute",
    "axioms: none (Print Assumptions: closed under the global context for every property theorem)",
    "hand-written model Refs/Model.v + Refs/PathFS.v, tied by harness/p9/c05_test.go, vhfs_*_test.go + Refs/Cases.v",
    "the harness backend vhfs (Go twin of PathFS.v), its call log and failure injection; lib/refs_cases.py (observations -> Coq terms)",
    "tools/go2coq/refsgen.go (syntactic event-skeleton extraction, no type checker) and the hand review of Refs/GenTie.v's table against Refs/Model.v",
]
HARNESS = ["vh_common_test.go", "vhfs_backend_test.go", "vhfs_driver_test.go", "vhfs_gen_test.go", "vhfs_gated_test.go", "c05_test.go"]
TEST = "^TestVerifC05$"


def summarize(obs):
    kinds = {}
    nsteps = 0
    ncalls = 0
    for o in obs:
        for s in o["steps"]:
            kinds[s["op"]["k"]] = kinds.get(s["op"]["k"], 0) + 1
            nsteps += 1
            ncalls += len(s["log"])
    return kinds, nsteps, ncalls


def run(ctx):
    rc, out, obs = ctx.gotest("p9", TEST, HARNESS, timeout=1500 if ctx.thorough else 600)
    if rc != 0 or not obs:
        # the subject may have crashed the test binary: what was observed until then is still evaluated
        ctx.harness_broken("harness %s failed (rc=%d)" % (TEST, rc), out)
        ctx.crashed = True
        if not obs:
            return
    lost = [o for o in obs if o.get("broken")]
    if lost:
        # the server stopped answering in the middle of a history (crash / hang of the subject): reported, the rest is evaluated
        ctx.harness_broken("harness lost the connection to the server: %s" % lost[0]["broken"], str(lost[0]["steps"][-3:]))
        ctx.crashed = True
        obs = [o for o in obs if not o.get("broken")]
        if not obs:
            return
    M, P = refs_cases.evaluate(ctx, ID, obs)
    for idx in P:
        o = obs[idx]
        ctx.violation("%s:lifecycle" % ID, "observed behaviour violates %s (File closed twice / used after Close / never closed / path incoherent / "
                      "fenced request reached the backend / Handle did not return)" % ID, slim(o))
    nm = 0
    for idx in M:
        o = obs[idx]
        nm += 1
        d = refs_cases.diagnose(ctx, ID, o) if nm <= 2 else None
        if nm <= 5:
            ctx.note("model/implementation disagree on history #%d (first difference: %s)" % (idx, d))
        ctx.broken.append({"kind": "correspondence", "what": "Refs/Model.v disagrees with the implementation on a history", "first_difference": d, "case": slim(o)})
        if nm <= 2:
            # the history is a concrete failing input of the correspondence obligation: reported with a replay, not as "no failing input found"
            ctx.violation("%s:model" % ID, "the implementation leaves the model the %s theorems are about on this history (first difference: %s)" % (ID, d), slim(o))
    kinds, nsteps, ncalls = summarize(obs)
    distinct = refs_cases.count_distinct_nontrivial(obs, ID)
    ctx.coverage.update({
        "evaluations": len(obs),
        "distinct_nontrivial": distinct,
        "rule": RULE,
        "correspondence": {"cases": len(obs), "mismatches": nm, "requests": nsteps, "backend_calls": ncalls, "by_request_kind": kinds,
                           "with_injected_failure": sum(1 for o in obs if o["inject"]), "complete_disconnect": sum(1 for o in obs if o.get("complete")), "gated_scenarios": sum(1 for o in obs if o.get("gated"))},
        "samples": refs_cases.pick_samples(obs, ID, slim),
    })


RULE = ("fixed corpus (xattr fids, failing multi-step walks, fid replacement, create-rebinding, attach paths, two connections) with a failure "
        "injected at EVERY backend call index; short sessions cut after every byte of every frame; random histories plain / with injected "
        "EIO, ENOENT, wrong-QID-count / cut at a random byte / left connected; 8 Renamed-panic-then-disconnect scenarios; distinct_nontrivial = distinct (steps, injection) records with >= 3 requests in which at least one File was closed, plus the gated scenarios; samples = the injected-failure history with the most backend calls, the complete history with the most successful rename/unlink requests, one gated scenario")


def slim(o):
    return {k: o[k] for k in ("kind", "wga", "inject", "steps", "nhandles", "complete", "returned", "gdelta", "dump_at", "dump", "log", "probes") if k in o}


def search(ctx):
    if ctx.thorough or getattr(ctx, "crashed", False):
        return  # a crashing / hanging subject is not made to crash again at the thorough budget
    ctx.tier = "thorough"
    ctx.thorough = True
    run(ctx)
