"""C12 — version and msize negotiation."""
import vlib
from vlib import coq_string, coq_bool

ID = "C12"
PROPERTIES_FILE = "Properties/C12.v"
COQ_TARGETS = ["Properties/C12.vo", "Fs/VersionCases.vo"]
LEVEL = "proof"
TECHNIQUE = ("Coq theorems over a hand-written Gallina model of parseVersion/versionString/tversion.handle/NewClient; parseVersion and versionString are also TRANSLATED from the source by go2coq VersionGen on every run and "
             "proved equal to the model for every string (C12_source_*); the rest of the model is tied to the code by differential cases evaluated with vm_compute")
LEVEL_TEXT = ("Theorems (all strings, all 32-bit msize/N, all reply scripts) about an executable model of version.go, "
              "tversion.handle and NewClient's negotiation loop; every run re-checks the proofs and compares the model with the real "
              "parseVersion, versionString, tversion.handle, Server.Handle (raw Tversion) and NewClient (scripted servers) on generated inputs.")
LEVEL_NOTE = ("The server clause evaluated on every observed Tversion/Rversion pair (handle/wire/session observations) is Fs/VersionText.v's "
              "handle_clause: an independent reading of the text (prefix test + elementary digit fold for the request, canonical-ness as a "
              "predicate on the reply string), proved to coincide with the model's grammar for every string and to be satisfied by the model's "
              "reply for every request; the client clause (client_clause) is likewise evaluated on what NewClient did. parse/vstr observations "
              "are function-level ties to the model (agrees). "
              "Trusted: Coq kernel + vm_compute; parse_version/version_string of the hand model (Fs/Version.v) are proved equal to the functions go2coq VersionGen translates from version.go (Fs/VersionTie.v); tversion.handle and NewClient stay tied by the differential cases only; "
              "ConstGen.v (constants read from the source by go2coq); Go's strings.Split/strconv.ParseUint/fmt %d are modelled by split_on / stdlib decimal conversion.")
DESIGN_REF = "6/C12"
ASSUMPTIONS = [
    "strconv.ParseUint(s,10,32), strings.Split and fmt.Sprintf(%d) behave as modelled (checked on the generated strings only)",
    "a conforming peer is not assumed: theorems quantify over every reply script",
]
TRUSTED_BASE = [
    "Coq 8.16.1 kernel, vm_compute (cases evaluation); no native_compute",
    "axioms: none (Print Assumptions: closed under the global context for every property theorem)",
    "go2coq VersionGen (statement-by-statement translation of parseVersion/versionString; refuses anything else) + Fs/VersionPrims.v (hand models of strings.Split, strconv.ParseUint, fmt.Sprintf %d)",
    "go2coq ConstGen (constants maximumLength, highestSupportedVersion, DefaultMessageSize, msg type numbers, EAGAIN)",
    "hand-written model Fs/Version.v, tied by harness/p9/c12_test.go + Fs/VersionCases.v",
    "python case translator props/C12.py:to_case (JSON observation -> c12case term)",
]


def bstr(a):
    return coq_string(bytes(a))


def reply(r):
    if r["kind"] == "err":
        return "VErr %d" % r["errno"]
    if r["kind"] == "conn":
        return "VConnErr"
    return "VRversion %d %s" % (r["msize"], bstr(r["version"]))


def result(o):
    k = o["result"]
    if k == "ok":
        return "NCOk %d %d %d" % (o["version"], o["msize"], o["payload"])
    return {"exhausted": "NCExhausted", "badversion": "NCBadVersion", "toosmall": "NCTooSmall", "conn": "NCConn"}.get(k) or "NCErrno %d" % o["errno"]


def to_case(o):
    k = o["kind"]
    if k == "consts":
        return "CConsts %d %d %d %d" % (o["largestFixedSize"], o["maximumLength"], o["highest"], o["defaultMsize"])
    if k == "parse":
        return "CParse %s %s %s %d" % (bstr(o["s"]), coq_bool(o["ok"]), coq_string(o["base"]), o["ver"])
    if k == "vstr":
        return "CVstr %d %s" % (o["n"], bstr(o["s"]))
    if k == "handle":
        return "CHandle %d %s %s %d %s %d %d" % (o["msize"], bstr(o["s"]), coq_bool(o["rtype"] == "rversion"), o.get("rmsize", 0),
                                                  bstr(o.get("rversion", [])), o["cs_msize"], o["cs_version"])
    if k == "wire":
        return "CWire %d %s %d %d %s" % (o["msize"], bstr(o["s"]), o["rtype"], o["rmsize"], bstr(o["rversion"] or []))
    if k == "client":
        sent = "[" + "; ".join("(%d, %s)" % (s["msize"], bstr(s["version"])) for s in (o["sent"] or [])) + "]"
        later = "[" + "; ".join("(%d, %d, %d)" % (f["type"], f["size"], f["count"]) for f in (o["later"] or [])) + "]"
        script = "[" + "; ".join(reply(r) for r in (o["script"] or [])) + "]"
        return "CClient %d %s (%s) %s %s" % (o["req_msize"], script, result(o), sent, later)
    if k in ("session", "wiresession"):
        reqs = "[" + "; ".join("(%d, %s)" % (q["msize"], bstr(q["s"])) for q in o["reqs"]) + "]"
        reps = "[" + "; ".join("(%d, %s)" % (q["msize"], bstr(q["version"])) for q in (o["replies"] or [])) + "]"
        if k == "session":
            sts = "[" + "; ".join("(%d, %d)" % (a, b) for a, b in o["states"]) + "]"
            return "CSession %s %s %s" % (reqs, reps, sts)
        return "CWireSession %s %s" % (reqs, reps)
    raise ValueError(k)


def run(ctx):
    rc, out, obs = ctx.gotest("p9", "^TestVerifC12$", ["vh_common_test.go", "c12_test.go"], timeout=600)
    if rc != 0 or not obs:
        ctx.harness_broken("harness TestVerifC12 failed (rc=%d)" % rc, out)
        return
    for o in obs:
        if o.get("hang"):
            ctx.violation("C12:client-hang", "a client call did not return within 20 s after negotiation (frames no longer fit the announced msize?)", o)
    shard = 400
    texts = []
    for i in range(0, len(obs), shard):
        cases = ";\n  ".join("(%s)" % to_case(o) for o in obs[i:i + shard])
        texts.append("From P9V Require Import Base.Str Fs.Version Fs.VersionCases.\nOpen Scope string_scope.\nOpen Scope N_scope.\n"
                     "Definition cases : list c12case := [\n  %s\n].\n"
                     "Definition M := Eval vm_compute in mismatches cases.\nPrint M.\n"
                     "Definition P := Eval vm_compute in property_failures cases.\nPrint P.\n" % cases)
    res = ctx.coq_eval_shards("C12_cases", texts, ["M", "P"])
    nm = 0
    kinds = {}
    for o in obs:
        kinds[o["kind"]] = kinds.get(o["kind"], 0) + 1
    for si, r in enumerate(res):
        if r is None:
            continue
        for idx in vlib.coq_nat_list(r["P"]):
            o = obs[si * shard + idx]
            ctx.violation("C12:%s" % o["kind"], "observed behaviour violates C12 (%s)" % o["kind"], o)
        for idx in vlib.coq_nat_list(r["M"]):
            o = obs[si * shard + idx]
            nm += 1
            if nm <= 5:
                ctx.note("model/implementation disagree on: %s" % str(o)[:400])
            ctx.broken.append({"kind": "correspondence", "what": "Fs/Version.v disagrees with the implementation (%s)" % o["kind"], "case": o})
    # non-trivial = a version string that is accepted or is a near miss of the grammar (has the 9P2000 prefix),
    # a client script with at least one Rversion, or a session of 2+ requests; counted as distinct records of those
    def nontrivial(o):
        k = o["kind"]
        if k in ("parse", "handle", "wire"):
            return bytes(o["s"]).startswith(b"9P2000")
        if k == "client":
            return any(r["kind"] == "rversion" for r in (o["script"] or []))
        return k in ("session", "wiresession", "vstr")
    distinct = len({str(sorted((k, str(v)) for k, v in o.items() if k != "id")) for o in obs if nontrivial(o)})
    ctx.coverage.update({
        "evaluations": len(obs),
        "distinct_nontrivial": distinct,
        "rule": "generated version strings (fixed boundary corpus + token concatenations + mutations + random numbers/leading zeros) x msize table; "
                "NewClient against scripted servers (EAGAIN chains, errors, lowered/raised/zero msize, non-.L versions); distinct_nontrivial counts distinct records whose version string starts with 9P2000 (accepted or near miss), client scripts containing an Rversion, and sessions",
        "correspondence": {"cases": len(obs), "mismatches": nm, "by_kind": kinds},
        # one sample per kind of observation, preferring a non-trivial one (accepted version / successful client / 3+ step session)
        "samples": [x for x in (
            next((o for o in obs if o["kind"] == "parse" and o["ok"] and o["ver"] > 0), None),
            next((o for o in obs if o["kind"] == "handle" and o.get("rmsize")), None),
            next((o for o in obs if o["kind"] == "wire" and not o.get("rmsize")), None),
            next((o for o in obs if o["kind"] == "client" and o["result"] == "ok" and len(o["sent"] or []) > 1), None),
            next((o for o in obs if o["kind"] == "client" and o["result"] == "exhausted"), None),
            next((o for o in obs if o["kind"] == "session" and len(o["reqs"]) >= 3), None)) if x is not None],
    })


def search(ctx):
    """Obligation or correspondence broken and no observed failure: aim the generator (thorough budget)."""
    if ctx.thorough:
        return
    ctx.tier = "thorough"
    ctx.thorough = True
    run(ctx)
