"""C18 — no carry-over between messages through recycled objects and buffers."""
import importlib.util
import os
import vlib

_spec = importlib.util.spec_from_file_location("prop_C01_shared", os.path.join(vlib.VERIF, "props", "C01.py"))
c01 = importlib.util.module_from_spec(_spec)
_spec.loader.exec_module(c01)

ID = "C18"
PROPERTIES_FILE = "Properties/C18.v"
COQ_TARGETS = ["Properties/C18.vo", "Codec/ReuseCases.vo", "Codec/ReuseGen.vo"]
LEVEL = "proof"
TECHNIQUE = ("Coq: decode programs (assignments, [:0] resets, append loops, payload checks) read off every Go decode method by go2coq; theorem that a "
             "program defining every field it reads yields a result independent of the recycled object and of pooled buffer content; generated-table "
             "check that every registered type's program covers every field of its struct; differential long->short->empty sequences through the real "
             "registry cache and two connections to a real Server with a recording backend")
LEVEL_TEXT = ("Theorem (all programs, all old object states, all dirty buffers, all bodies): covers => recv into a recycled object = recv into any other "
              "object, on every field. Obligation over generated tables: covers holds for all 65 registered decode programs (tflush.wait is the one non-wire "
              "field; the generator checks that handleRequest overwrites it). registry.put clears the payload (body matched by the translator). "
              "Read replies: for the generated pool-operation sequence of a Tread, every interleaving of any number of Treads in flight delivers the backend's bytes "
              "(exclusive buffer ownership invariant). Every run decodes frame sequences into really recycled objects and compares with a fresh decode, with the model, and checks "
              "backend-seen arguments and reply bytes on two interleaved connections and for pipelined Treads on one connection (gated backend, slow peer).")
LEVEL_NOTE = ("Object half: proved for the decode programs go2coq reads off every decode method (generated, re-checked each run). Buffer half, read replies: Codec/PoolConc.v models "
              "connState.readBufPool with buffer IDENTITY (heap + pool as a list of identities, Get returns any pooled buffer or a new one, a double Put makes a duplicate) and any number "
              "of Treads in flight; the sequence of pool operations of one Tread (Get, ReadAt, send, zeroing, Put) is GENERATED from tread.handle / send / PayloadCleanup (gen_read_ops, "
              "obligation read_ops_spec) and C18_read_data_concurrent is proved for that program over every interleaving and every pool choice by an exclusive-ownership invariant; the "
              "model expresses the leaks (_refuted twins: early/double Put, no zeroing). Codec/Pool.v (sequential reads, recv's pooled decode buffer with arbitrary previous content) "
              "is a hand model; recv's appendBuffer is additionally READ structurally (gen_recv_grow_cmp / decode_slice / read_slice = which view of the pooled buffer decides growth, is "
              "handed to decode, is filled by ReadFrom), interpreted by Pool.recv_buffer_g which also models the bytes between length and capacity, with C18_pool_generated_independent "
              "for the generated views and a _refuted theorem for EVERY other decode view; the rest is tied by three generated syntactic facts (C18_pool_facts) and by the poisoned-pool / lazy-backend differential; C18_payload_cleared and C18_payload_slice hold "
              "BY CONSTRUCTION of the model. The error paths of tread.handle (buffer dropped, never put back) are the prefix Get, ReadAt of the program: covered because a schedule may "
              "stop a request anywhere. Trusted: Coq kernel + vm_compute; go2coq CodecGen; sync.Pool returns some buffer that was Put or a new one (quantified over); vecnet ReadFrom "
              "fills the whole slice or fails (C17); handle returns before send starts (data dependency in handleRequest).")
DESIGN_REF = "6/C18"
ASSUMPTIONS = [
    "a pool / cache returns some object of the right type in an arbitrary state (quantified over), never one still in use (C10/C06)",
    "ReadFrom fills the slices it is given completely or recv fails (C17)",
    "the backend's ReadAt writes at most the n bytes it reports (it may write fewer: lazy backends are covered) and n <= len(p)",
]
TRUSTED_BASE = [
    "Coq 8.16.1 kernel, vm_compute (generated-table checks and cases evaluation); no native_compute",
    "axioms: none (Print Assumptions: closed under the global context for every property theorem)",
    "go2coq CodecGen (decode programs, struct field lists, Payload/SetPayload fields, registry.put body, handleRequest's f.wait = nil; gen_read_ops: event order of "
    "readBufPool.Get/Put, ReadAt, WriteTo, zeroing copy in tread.handle, send, rreadServerPayloader.PayloadCleanup with defers moved to function end)",
    "harness/p9/c18_reuse_test.go + c01_codec_test.go (reflection dump of message objects, recording backend)",
]

SHARD = 120

HEADER = ("From Coq Require Import NArith List String.\nRequire Import Coq.Init.Byte.\n"
          "From P9V Require Import Codec.Layout Codec.Frame Codec.Dump Codec.ReuseCases%s cases.%s.\nImport ListNotations.\n")


def to_case(o):
    if o["k"] == "reuse":
        return "KReuse x%02x %s %s %s %s %s %s" % (o["typ"], c01.le(o["msize"]), c01.segs(bytes.fromhex(o["wire"])), c01.cvals(o["old"]),
                                                    "true" if o["reused"] else "false", c01.res(o["rec"]), c01.res(o["fresh"]))
    if o["k"] == "over":
        return "KOver x%02x %s %s %s %s" % (o["typ"], c01.le(o["n"]), c01.le(o["present"]), c01.le(o["appended"]), "true" if o["res"] in ("invalid", "conn") else "false")
    if o["k"] == "cut":
        return "KCut %s %s %s %s" % (c01.le(o["msize"]), c01.segs(bytes.fromhex(o["wire"])), c01.res(o["a"]), c01.res(o["b"]))
    return "KSrv %s %s" % (c01.cvals(o["sent"]), c01.cvals(o["seen"]))


def run(ctx):
    from concurrent.futures import ThreadPoolExecutor
    rc, out, obs = ctx.gotest("p9", "^TestVerifC18$", ["vh_common_test.go", "vhcl_common_test.go", "c01_codec_test.go", "c01_conn_test.go", "c18_reuse_test.go"], timeout=900)
    regobs = [o for o in obs if o["k"] == "registry"]
    obs = [o for o in obs if o["k"] in ("reuse", "srv", "cut", "over")]
    if rc != 0 or not obs or not regobs:
        # a panic in the scenario (wrong reply type, backend call count) ends the test: observations so far are still evaluated
        ctx.harness_broken("harness TestVerifC18 failed (rc=%d)" % rc, out)
        if not obs or not regobs:
            return
    schema = regobs[0]["schema"]
    bad = [o for o in obs if o["k"] == "reuse" and (o["rec"]["r"].startswith("other") or o["fresh"]["r"].startswith("other"))]
    if bad:
        ctx.harness_broken("recv returned an error the harness cannot classify", str(bad[0])[:400])
        obs = [o for o in obs if o not in bad]
    have_gen = c01.fresh("Codec/ReuseGen.vo", "gen/CodecGen.v", "Codec/ReuseGen.v", "Codec/ReuseCases.v", "Codec/GenTables.v")
    if not c01.fresh("Codec/ReuseCases.vo", "Codec/ReuseCases.v", "Codec/Dump.v"):
        ctx.harness_broken("Codec/ReuseCases.vo is not built: cases cannot be evaluated", "")
        return
    sname = c01.compile_schema(ctx, "C18_cases", schema)
    if sname is None:
        return
    texts = []
    nsh = max(1, (len(obs) + SHARD - 1) // SHARD)   # shard s holds obs[s::nsh]
    for i in range(nsh):
        cases = ";\n  ".join("(%s)" % to_case(o) for o in obs[i::nsh])
        t = HEADER % (" Codec.ReuseGen" if have_gen else "", sname)
        t += "Definition ccases : list c18c := [\n  %s\n].\n" % cases
        t += ("Definition R := Eval vm_compute in let cases := map (to_case18 sc) ccases in\n"
              "  (bad_cases18 cases, property_failures cases, %s).\nPrint R.\n" % ("mismatches18 cases" if have_gen else "@nil nat"))
        texts.append(t)
    prints = ["R"]
    with ThreadPoolExecutor(max_workers=12) as ex:
        futs = [ex.submit(c01.coq_batch, ctx, "C18_cases_%03d" % i, t, prints) for i, t in enumerate(texts)]
        results = [f.result() for f in futs]
    c01.cleanup_schema(sname)
    nm = 0
    for si, r in enumerate(results):
        if r is None:
            continue
        r = c01.split_triple(ctx, r["R"])
        if r is None:
            continue
        badi = vlib.coq_nat_list(r["B"])
        if badi:
            ctx.harness_broken("%d observations do not fit the schema of field paths" % len(badi), str(obs[si + nsh * badi[0]])[:400])
        for i in vlib.coq_nat_list(r["P"]):
            o = obs[si + nsh * i]
            if o["k"] == "over":
                ctx.violation("C18:over:%d" % o["typ"],
                              "a list count not backed by the body made the decoder append beyond the first element that did not fit (or the frame was not rejected)", o)
            elif o["k"] == "cut":
                ctx.violation("C18:cut:%d" % o["typ"],
                              "one frame gave different results after different earlier pool content (pooled buffer bytes carried over into a message)", o)
            elif o["k"] == "reuse":
                ctx.violation("C18:reuse:%d" % o["typ"],
                              "a message decoded into a recycled object differs from the same frame decoded alone (content carried over from the previous message)", o)
            else:
                ctx.violation("C18:srv:%s" % o["op"],
                              "backend arguments / reply bytes of a request differ from what that request's frame / the backend's answer carried", o)
        if have_gen:
            for i in vlib.coq_nat_list(r["M"]):
                if i in badi:
                    continue
                o = obs[si + nsh * i]
                nm += 1
                if nm <= 5:
                    ctx.note("Reuse model disagrees with the implementation on: %s" % str({k: o[k] for k in o if k not in ("wire",)})[:300])
                if nm <= 20:
                    ctx.broken.append({"kind": "correspondence", "what": "Codec/Reuse.v recv_into (generated decode program) does not reproduce the real decode (type %s)" % o.get("typ"),
                                       "case": str(o)[:2000]})
    if not have_gen:
        ctx.broken.append({"kind": "correspondence", "what": "gen/CodecGen.v or Codec/ReuseGen.v did not build: model agreement not evaluated"})
    reuse = [o for o in obs if o["k"] == "reuse"]
    srv = [o for o in obs if o["k"] == "srv"]
    cut = [o for o in obs if o["k"] == "cut"]
    over = [o for o in obs if o["k"] == "over"]
    byop = {}
    for o in srv:
        byop[o["op"]] = byop.get(o["op"], 0) + 1
    cutres = {}
    for o in cut:
        k = "%s:%s/%s" % (o.get("what", "stream-cut"), o["a"]["r"], o["b"]["r"])
        cutres[k] = cutres.get(k, 0) + 1
    # non-trivial: a decode into an object that really was recycled and whose previous state differs from the new
    # message; a server request with some content; a twice-received frame on which decode ran (delivered or invalid)
    nt_reuse = {o["wire"] + str(o["old"]) for o in reuse if o["reused"] and o["rec"]["r"] == "ok" and o["old"] != o["rec"]["got"]}
    nt_srv = {str(o["sent"]) + o["op"] for o in srv if o["op"] != "read-handover"}
    nt_cut = {o["wire"] for o in cut if o["a"]["r"] in ("ok", "invalid")}

    def pick(l, pred):
        return next((o for o in l if pred(o) and len(str(o)) < 3000), None)
    samples = [
        {"role": "boundary: an empty Twalk decoded into the object that held a named walk", "case": pick(reuse, lambda o: o["typ"] == 110 and o["reused"] and o["what"] == "empty")},
        {"role": "typical: Twalkgetattr names as the backend saw them", "case": pick(srv, lambda o: o["op"] == "walkgetattr")},
        {"role": "lazy backend after a longer read: reply must be its bytes then zeros", "case": pick(srv, lambda o: o["op"] == "read-lazy")},
        {"role": "concurrent: reply of a read that was parked in its backend call while another read was served", "case": pick(srv, lambda o: o["op"] == "read-pipelined-outer")},
        {"role": "malformed: body shorter than the type needs, received after two different pool poisons", "case": pick(cut, lambda o: o.get("what") == "poison" and o["at"] == 1)},
        {"role": "malformed: list count 65535 backed by one element", "case": pick(over, lambda o: o["n"] == 65535 and o["present"] == 1)},
    ]
    ctx.coverage.update({
        "evaluations": len(obs),
        "distinct_nontrivial": len(nt_reuse) + len(nt_srv) + len(nt_cut) + len(over),
        "rule": "per registered type: 16-element lists / 1 / empty / 300-byte strings / random / 5000-byte payload twice / 3-byte payload / empty ... decoded into the "
                "object the registry cache returned (put back after each decode); frames cut in the STREAM after an earlier message (all end in ConnError on a correct tree: "
                "they guard against recv tolerating a short read) and complete / too-short-body frames received after poisoning dataPool with 0xA5 resp. 0x5A; list counts "
                "not backed by the body; two connections to one Server: Twalk/Twalkgetattr name lists, Twrite payloads, Tread (honest and lazy backend, whole handed buffer "
                "inspected for leftovers) and Treaddir replies, lock-step and overlapping; pipelined Treads on ONE connection (GOMAXPROCS(1)): a read parked inside its backend call "
                "(gated) or in send (peer not reading) while one or two more are received, served and answered, honest and lazy, sizes 33..20000. distinct_nontrivial = really recycled decodes whose old state differs from the new "
                "message + distinct server requests + twice-received frames on which decode ran + count-overrun cases",
        "recycled_decodes": sum(1 for o in reuse if o["reused"]),
        "types_exercised": len({o["typ"] for o in reuse}),
        "twice_received_outcomes": cutres,
        "correspondence": {"cases": len(obs), "mismatches": nm, "server_ops": byop, "model_available": have_gen},
        "samples": [x for x in samples if x["case"] is not None],
    })


def search(ctx):
    """One more quick-tier pass with another seed (inside ctx.search_budget_s); never an escalation to thorough."""
    if ctx.thorough or getattr(ctx, "search_budget_s", 150) < 60:
        return
    ctx.seed += 1
    run(ctx)
