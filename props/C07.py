"""C07 — backend concurrency contract of the File interface (path-tree locking)."""
import vlib
from vlib import coq_string, coq_bool

ID = "C07"
PROPERTIES_FILE = "Properties/C07.v"
COQ_TARGETS = ["Properties/C07.vo", "Locks/LockCases.vo"]
LEVEL = "proof"
TECHNIQUE = ("Coq: generic mutual-exclusion theorem for RW locks (inductive invariant, any number of threads, all interleavings); "
             "lock/contract tables generated from the Go source (go2coq LockGen: abstract interpretation of handlers.go/server.go/path_tree.go, "
             "documented classes from file.go) checked by vm_compute and lifted to the contract theorem; rendezvous battery on the real server")
LEVEL_TEXT = ("C07_mutex/C07_contract/C07_open_once are proved for all interleavings of any number of threads over a lock model; the model is tied to "
              "the code by (1) the generated table of every backend call site with the locks syntactically held there (obligation C07_classes_ok: "
              "provided class >= documented class on the receiver's node, re-checked on every run) and (2) the rendezvous battery: every ordered pair of "
              "backend-reaching requests x path relation, first held inside the backend, second observed entering or not, compared with the model.")
LEVEL_NOTE = ("Open at most once ACROSS fids: C07_open_one_owner (generated tables fidref_literals / ref_field_writes: the only fidRef that borrows another's File, Txattrwalk's, is given no mode / opened / openFlags, so Tlopen on it is refused before File.Open; the only later writes of these fields are the attach root's mode and Tlopen's own) + a raw Txattrwalk/Tlopen probe counting Open per backend File. Trusted: Coq kernel + vm_compute; go2coq LockGen (abstract interpreter over every non-test file of package p9; plans are re-interpreted in Coq, "
              "completeness against a hand-written inventory, contract table pinned; refuses unknown shapes, method values, unfollowable calls); "
              "the hand-written lock semantics (Locks/Locks.v: sync.RWMutex as mutual exclusion); 'overlap' means the instrumented backend's enter/exit events. "
              "C07_contract_sites is a FRAGMENT theorem: each thread runs the plan of ONE call site (start of the handler to the call, the call, release); that a whole "
              "handler run is a succession of such fragments is not proved; C07_contract_runs (Locks/Runs.v) proves the contract for threads running ANY finite succession of fragments. C07_open_once is a hand model tied by open_ok (Open, the test and the update of opened inside openMu) "
              "and by the battery (open|open on one fid, Opens <= 1). The property's 'random concurrent workloads with an overlap monitor' run in ./check C16 (same monitor "
              "predicate LockCases.log_ok), not in ./check C07. 'Same path => same node': C07_new_refs_ok (every fidRef literal gets the node of its File) + C07_node_sources (generated: the only "
              "struct fields holding path nodes are Server.<root>, fidRef.pathNode, pathNode.childNodes; pathNodes are constructed only in NewServer and in pathNodeFor, "
              "whose store to childNodes and its re-check read hold childMu for writing) + the model theorem C07_same_path_same_node (Locks/NodeId.v, hand model of "
              "pathNodeFor as atomic lookup-or-make; that re-check and store sit in ONE critical section is not checked, only that both hold the write lock) + the battery's "
              "cross-connection, created-fid and two-attach-roots relations (concrete overlaps).")
DESIGN_REF = "6/C07"
ASSUMPTIONS = [
    "sync.Mutex/RWMutex provide mutual exclusion; defer runs on return and panic",
    "symbolic node names denote path nodes consistently (ref.parent.pathNode is the parent of ref.pathNode; a parent fidRef is never an xattr fidRef); "
    "path nodes are shared per (directory node, name) as long as the entry is not removed: obligation C07_node_sources + model theorem C07_same_path_same_node",
    "a failed File.Open leaves the fid unopened and may be retried by a later Tlopen (stated in C07_open_once)",
]
TRUSTED_BASE = [
    "Coq 8.16.1 kernel, vm_compute (table checks, cases evaluation)",
    "axioms: none (Print Assumptions: closed under the global context)",
    "go2coq LockGen (tools/go2coq/lockgen.go, lockgen_interp.go): plans and lock sets at each site, fidRef constructions, documented classes parsed from file.go",
    "harness: gated monitoring backend (harness/p9/vhgate_backend_test.go), rendezvous battery (c07_rendezvous_test.go), p9 client and in-package sendRecv used as driver",
    "white-box TryLock/TryRLock probes of Server.renameMu, pathNode.opMu/childMu/childNodes from inside the gated call (vhgate_backend_test.go): a rename of those fields breaks the harness build; "
    "the tree root is found by type (the *pathNode field of Server), a server without one only makes the probes inconclusive",
    "props/C07.py rq()/to_case(): translation of observations to Coq cases (binding of T-message fields to paths, receiver role -> symbolic node)",
]

FILES = ["vh_common_test.go", "vhgate_backend_test.go", "c07_rendezvous_test.go"]
SHARD = 150


def cpath(p):
    parts = [x for x in p.split("/") if x]
    return "[" + "; ".join(coq_string(x) for x in parts) + "]"


def rq(q):
    """A request names its table row by protocol-level keys: handler, backend method, the T-message field of the fid
    the call is made on and the receiver's role relative to it (no names of locals)."""
    fidkey = "fid:" + q["fidf"]
    namekey = "msg." + q["namef"] if q.get("namef") else ""
    recv = {"self": '(NOf %s)' % coq_string(fidkey),
            "child": '(NChild (NOf %s) %s)' % (coq_string(fidkey), coq_string(namekey)),
            "parent": '(NParent (NOf %s))' % coq_string(fidkey)}[q["role"]]
    refs = "[" + "; ".join("(%s, %s)" % (coq_string("fid:" + k), cpath(v)) for k, v in sorted(q["refs"].items())) + "]"
    names = "[" + "; ".join("(%s, %s)" % (coq_string("msg." + k), coq_string(v)) for k, v in sorted(q["names"].items())) + "]"
    entry = "(Some %s)" % cpath(q["entry"]) if q.get("entry") else "None"
    pr = q.get("probe") or {"rename": 3, "node": 3, "entry": 3}
    return "(mkRq %s %s %s %s %s %s %s %s %s (%d, %d, %d) %s)" % (coq_string(q["root"]), coq_string(q["method"]), recv, refs, names,
                                                 coq_string(str(q["conn"])), coq_string("%s:%s" % (q["conn"], q["fid"])), cpath(q["node"]), entry,
                                                 pr["rename"], pr["node"], pr["entry"], coq_string(fidkey))


def to_case(o):
    if o["kind"] == "openprobe":
        return "COpens %d" % o["opens"]
    return "CRv %s %s %s %s %d" % (rq(o["a"]), rq(o["b"]), coq_bool(o["entered"]), coq_bool(o.get("bdone", False)), o.get("opens", 0))


HEADER = ("From Coq Require Import String List Bool.\nFrom P9V Require Import Locks.Sym Locks.LockCases.\nImport ListNotations.\nOpen Scope string_scope.\n")


def evaluate(ctx, name, obs):
    texts = []
    for i in range(0, len(obs), SHARD):
        cases = ";\n  ".join("(%s)" % to_case(o) for o in obs[i:i + SHARD])
        texts.append(HEADER + "Definition cases : list lcase := [\n  %s\n].\n"
                     "Definition M := Eval vm_compute in mismatches cases.\nPrint M.\n"
                     "Definition P := Eval vm_compute in property_failures cases.\nPrint P.\n" % cases)
    res = ctx.coq_eval_shards(name, texts, ["M", "P"])
    M, P = [], []
    for si, r in enumerate(res):
        if r is None:
            continue
        M += [obs[si * SHARD + i] for i in vlib.coq_nat_list(r["M"])]
        P += [obs[si * SHARD + i] for i in vlib.coq_nat_list(r["P"])]
    return M, P


def run(ctx):
    rc, out, obs = ctx.gotest("p9", "^TestVerifC07$", FILES, timeout=1500)
    if rc != 0 or not obs:
        ctx.harness_broken("harness TestVerifC07 failed (rc=%d)" % rc, out)
        return
    rv = [o for o in obs if o["kind"] == "rv"]
    probes = [o for o in obs if o["kind"] == "openprobe" and o.get("valid")]
    if len(probes) < 4:
        ctx.harness_broken("C07 open probe: only %d of 4 Txattrwalk+Tlopen probes could be set up" % len(probes), out)
    else:
        _, P0 = evaluate(ctx, "C07_openprobe", probes)
        for o in P0:
            ctx.violation("C07:open-twice:%s" % o["key"], "File.Open called %d times on one File (Tlopen on a fid and on the xattr fid walked from it, %s)" % (o["opens"], o["path"]), o)
    stale = [o for o in obs if o["kind"] == "staleprobe"]
    for o in stale:
        if o.get("valid") and o.get("entered"):
            ctx.violation("C07:overlap:stale-node", "GetAttr on an entry entered the backend while UnlinkAt of that entry (documented exclusive on the entry) was in progress: "
                          "the unlink resolved the name to a node before a rename moved the entry there, and locked the stale node", o)
    if stale and not any(o.get("valid") for o in stale):
        ctx.note("C07 stale-node probe could not be set up in %d attempts" % len(stale))
    hangs = [o for o in obs if o["kind"] == "hang"]
    invalid = [o for o in obs if o["kind"] == "invalid" and "does not fit" not in o.get("why", "") and "cannot be both" not in o.get("why", "")]
    for o in hangs:
        ctx.violation("C07:hang:%s" % o["key"], "a request was not answered / the connection did not shut down (%s)" % o.get("why"), o)
    M, P = evaluate(ctx, "C07_cases", rv)
    for o in P:
        what = "File.Open called %d times on one File" % o["opens"] if o.get("opens", 0) > 1 else \
            "%s entered the backend while %s was in progress on %s (%s): forbidden by the documented classes" % (o["bname"], o["aname"], o["a"]["node"], o["rel"])
        ctx.violation("C07:overlap:%s" % o["key"], what, o)
    # model/implementation disagreement
    entered_but_model_waits = [o for o in M if o["entered"]]
    suspects = [o for o in M if not o["entered"]]
    confirmed = []
    if suspects:
        # "blocked" is only ever inferred by timeout in this direction, and must be confirmed (3 x >= 1.1 s)
        keys = ",".join(sorted({o["key"] for o in suspects})[:400])
        rc2, out2, obs2 = ctx.gotest("p9", "^TestVerifC07$", FILES, env={"VERIF_C07_CONFIRM": keys}, timeout=1500)
        rv2 = [o for o in obs2 if o["kind"] == "rv"]
        M2, P2 = evaluate(ctx, "C07_confirm", rv2) if rv2 else ([], [])
        confirmed = [o for o in M2 if not o["entered"]]
        for o in P2:
            ctx.violation("C07:overlap:%s" % o["key"], "forbidden overlap (confirmation run)", o)
        entered_but_model_waits += [o for o in M2 if o["entered"]]
    nm = 0
    for o in entered_but_model_waits:
        nm += 1
        ctx.broken.append({"kind": "correspondence", "what": "lock model says %s must wait for %s (%s) but it entered the backend" % (o["bname"], o["aname"], o["rel"]), "case": o})
    for o in confirmed:
        nm += 1
        ctx.broken.append({"kind": "correspondence", "what": "lock model says %s may enter while %s is in progress (%s) but it stayed blocked (3 x %d ms)" % (o["bname"], o["aname"], o["rel"], o["wait_ms"]), "case": o})
    if nm:
        ctx.note("model/implementation disagreements: %d (first: %s)" % (nm, (entered_but_model_waits + confirmed)[0]["key"]))
    if len(invalid) > max(5, len(rv) // 50):
        ctx.harness_broken("%d rendezvous cases could not be set up (first: %s)" % (len(invalid), invalid[0].get("why")), str(invalid[:3]))
    pairs = {(o["aname"], o["bname"]) for o in rv}
    ctx.coverage.update({
        "evaluations": len(rv),
        "distinct_nontrivial": len({o["key"] for o in rv}),
        "rule": "ordered pairs of %d backend-reaching requests (incl. Tremove, Trename, xattr, tu*, Tlock) x %d path relations (same fid, two fids, cross connection, "
                "parent/child, child/parent, siblings, entry of the first/second, fid from Tlcreate vs walked fid, two attach roots); first held at a gate inside the backend, "
                "second observed (event) entering or not within %d ms; quick = seeded third of the battery + all pairs among the always-run set + the entry relations, "
                "thorough = all; distinct = distinct (first, second, relation) triples that could be set up"
                % (len({o["aname"] for o in rv}), len({o["rel"] for o in rv}), rv[0]["wait_ms"] if rv else 0),
        "correspondence": {"cases": len(rv), "mismatches": nm, "entered": sum(1 for o in rv if o["entered"]), "not_entered": sum(1 for o in rv if not o["entered"]),
                           "second_finished_without_call": sum(1 for o in rv if o.get("bdone") and not o["entered"]),
                           "suspects_reconfirmed": len(suspects), "pairs": len(pairs), "setup_failed": len(invalid), "hangs": len(hangs)},
        "samples": rv[:2] + [o for o in rv if not o["entered"]][:1],
    })


def search(ctx):
    """An obligation or the correspondence broke and no overlap was observed: run the whole battery."""
    if ctx.thorough or (getattr(ctx, "search_budget_s", None) is not None and ctx.search_budget_s < 240):
        return
    ctx.tier = "thorough"
    ctx.thorough = True
    ctx.note("running the complete rendezvous battery")
    run(ctx)
