"""C15 — fault containment: backend errors and panics affect only their request."""
import vlib
import vsrv

ID = "C15"
PROPERTIES_FILE = "Properties/C15.v"
COQ_TARGETS = ["Properties/C15.vo", "Server/Cases.vo"]
LEVEL = "proof"
TECHNIQUE = ("Coq theorems over all states, requests and oracle tapes (an error value or a panic at any backend call index) about the Gallina model of the handlers and of "
             "connState.handle's recover; tied to the code by go2coq HandlerGen (deferred DecRef, bracketing) and a fault-injection differential")
LEVEL_TEXT = ("For every tape: a panicking backend call yields Rlerror EFAULT; the reply to a request in which a backend call failed is Rlerror(ExtractErrno e) of the FIRST failing call "
              "for every request kind and call index (C15_first_fault_reply: multi-component walks incl. the GetAttr fallback, attach, rename, remove, xattr, clunk; side conditions: the handler itself "
              "does not panic, and for Tclunk/Tremove no Close of the request failed), with the fid table unchanged (Tclunk/Tremove minus their fid); the next request on any connection is answered "
              "from a well-formed state. 'Every File obtained during the failed request is closed': on this model proved for the walkOne GetAttr fallback (C15_obtained_closed_partial); the whole-request statement "
              "(every failing Twalk/Twalkgetattr/Tattach, any failing component/call, every history, every backend) is C15_obtained_closed_walk/_attach on the reference-count model Refs/Model.v (C05's model); "
              "and it is evaluated on every observed faulted request (created_handles / closed_in in c15_step). "
              "Every run injects errors and panics at backend call indices of generated histories on the real server and replays the same tapes in the model.")
LEVEL_NOTE = ("Trusted: Coq kernel + vm_compute; Go's defer/recover semantics as modelled by with_defer and step; locks are outside this model (C16/C07 lock graph). "
              "After a panic Files obtained earlier in that request are not claimed closed (the walk reference is dropped by a plain call, not a defer). "
              "C15_obtained_closed_walk/_attach are theorems about Refs/Model.v, whose tie to the code is C05's differential (./check C05: failures at every backend call index); this check ties the clause by c15_step on observed logs.")
DESIGN_REF = "6/C15"
ASSUMPTIONS = [
    "Go defer/recover behave as modelled (deferred calls run on panic, recover in connState.handle catches every handler panic)",
    "sequential histories; B1, B2 as in C04",
]
TRUSTED_BASE = [
    "Coq 8.16.1 kernel, vm_compute",
    "axioms: none",
    "go2coq HandlerGen + ConstGen",
    "hand-written model Server/*.v; harness/p9/vhsrv_*_test.go, c04_hist_test.go (fixed-history runner), c15_fault_test.go",
    "lib/vsrv.py (python translation of observed histories into Coq cases)",
]
WHICH = "P15"
TEST = "^TestVerifC15$"
FILES = vsrv.HARNESS_FILES + ["c04_hist_test.go", "c15_fault_test.go"]


def run(ctx):
    rc, out, obs = ctx.gotest("p9", TEST, FILES, timeout=2400)
    if rc != 0 or not obs:
        ctx.harness_broken("harness %s failed (rc=%d)" % (TEST, rc), out)
        return
    hists = [h for h in obs if h.get("kind") == "hist"]
    for h in hists:
        if h.get("broken"):
            f = h.get("fault")
            if f and len(h["steps"]) >= f["step"]:
                ctx.violation("C15:stopped", "after a backend %s at step %d call %d the server stopped answering (%s)" % (
                    "panic" if f["panic"] else "error", f["step"], f["call"], h["broken"]), {"history": h["id"], "fault": f, "steps": h["steps"]})
            else:
                ctx.harness_broken("history %s: the server stopped answering (%s)" % (h["id"], h["broken"]), str(h["steps"][-1:])[:1500])
    good = [h for h in hists if h["steps"]]
    nm, nf = vsrv.evaluate(ctx, ID + "_cases", good, WHICH)
    # "only that request is affected": a faulted history whose un-faulted twin agrees with the model everywhere, and which itself
    # agrees with the model up to and including the faulted request, but answers a LATER request differently from the model
    # (which is proved to leave fid table and path tree as if the failed request had not run) is a concrete failing history.
    byid = {h["id"]: h for h in good}
    bad_ids = {b.get("history") for b in ctx.broken if b.get("kind") == "correspondence"}
    for b in list(ctx.broken):
        if b.get("kind") != "correspondence" or b.get("history") not in byid:
            continue
        h = byid[b["history"]]
        f = h.get("fault")
        k = b.get("step")
        if not f or f.get("panic") or k is None or k <= f["step"]:
            continue
        parts = h["id"].split("-")
        twin = "base-%s-%s" % (parts[1], parts[2]) if parts[0] == "fault" and len(parts) > 3 else None
        if twin is not None and twin in bad_ids:
            continue   # the model is off on this history even without the fault: a correspondence problem, not this clause
        ctx.violation("C15:later:%s" % h["steps"][k]["req"]["t"],
                      "after a backend error at step %d call %d (%s), the later request at step %d (%s) is answered differently from a server whose "
                      "fid table and path tree are as if the failed request had not run" % (f["step"], f["call"], h["steps"][f["step"]]["req"]["t"], k, h["steps"][k]["req"]),
                      {"history": h["id"], "fault": f, "failing_step": k, "steps": h["steps"][:k + 1]})
    st, distinct = vsrv.stats(good)
    sites = {}
    for h in good:
        f = h.get("fault")
        if f and f["step"] < len(h["steps"]) and f["call"] < len(h["steps"][f["step"]]["calls"]):
            c = h["steps"][f["step"]]["calls"][f["call"]]
            k = "%s/%s/%s" % (h["steps"][f["step"]]["req"]["t"], vsrv.METH[c["m"]], "panic" if f["panic"] else "error")
            sites[k] = sites.get(k, 0) + 1
    ctx.coverage.update({
        "evaluations": st["steps"],
        "distinct_nontrivial": len(sites),
        "rule": "base histories re-run with an error / a panic forced at a backend call index (sites after the first call of a request, in Close, RenameAt and Renamed first), "
                "then continued on the same fids and a second connection; distinct_nontrivial = number of distinct (request type, backend method, error|panic) injection sites actually reached "
                "(the fault was delivered: the call index exists in the faulted step); samples: boundary = a fault at the LAST call of a multi-call request",
        "correspondence": {"cases": st["steps"], "mismatches": nm, "property_failures": nf, "fault_runs": sum(1 for h in good if h.get("fault")),
                           "injection_sites": sites, "distribution": st},
        "samples": vsrv.samples([h for h in good if h.get("fault")] or good,
                                boundary=lambda st: len(st["calls"]) >= 2 and bool(st["calls"][-1]["ans"]["e"] or st["calls"][-1]["ans"]["p"])),
    })


def search(ctx):
    # thorough re-run only when the driver grants the time for it (ctx.search_budget_s)
    if ctx.thorough or getattr(ctx, "search_budget_s", 0) < 600:
        return
    ctx.tier = "thorough"
    ctx.thorough = True
    run(ctx)
