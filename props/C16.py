"""C16 — global progress (no deadlock), guarded shared state, isolation across concurrent sessions."""
import vlib
from vlib import coq_string, coq_bool

ID = "C16"
PROPERTIES_FILE = "Properties/C16.v"
COQ_TARGETS = ["Properties/C16.vo", "Locks/LockCases.vo"]
LEVEL = "proof"
TECHNIQUE = ("Coq: generic deadlock-freedom theorem for rank-ordered RW locks with a gate lock and Go's writer preference (any number of threads, all "
             "interleavings); lock graph, guarded map accesses, backend-call and wait sites generated from the Go source (go2coq LockGen) and checked by "
             "vm_compute; frame theorem for isolation; random concurrent workloads on the real server with overlap monitor, watchdog and concurrent-vs-alone differential")
LEVEL_TEXT = ("C16_order_no_deadlock: discipline D (no re-acquisition; rank increasing, or under renameMu.W only childMu's; childMu held across a request only by "
              "gate holders) excludes every all-blocked state, with blocked = Go RWMutex semantics incl. pending-writer preference. C16_edges_ok/C16_edges_sound: every "
              "acquisition site of server.go/path_tree.go/handlers.go (transitively through calls/closures) satisfies D. C16_guarded: every access to the shared maps "
              "holds its mutex. C16_weak_refs_ok: a fidRef found through a path node's childRefs (possibly dying) is only ever acquired with TryIncRef. "
              "C16_isolation_frame (+ _partial instance): disjoint clients' replies are independent of the interleaving.")
LEVEL_NOTE = ("Data-race freedom and 'no runtime abort' are runtime notions: what is proved is lock discipline on the generated tables (8 guarded maps incl. aliases, "
              "fidRef.opened); the clause 'no data race reported by the race detector' rests on `go test -race` runs of the workload in EVERY tier (supporting evidence, "
              "4 runs quick / 25 thorough) and of the qids.Mapper test; other shared fields (pathNode.deleted, fidRef.refs via atomics, mode/openFlags/pendingXattr) are covered by the race runs only. "
              "DELEGATION: the wait/notify half of 'no lost wake-up' (Tflush waiting for a tag, ClearTag closing the channel, stop() waiting for pendingWg) is decided by "
              "C06/C14's model and checks; C16's model has locks only (wait_ok: waits hold no lock) and observes the symptom end to end (Tflush traffic in the workload, issued == answered). "
              "Recursive read-locking of renameMu (a handler calling doWalk inside safelyRead) is refused by C16_edges_ok (the plan is followed through closures) and shown concretely by the "
              "queued-writer probes (reader parked in the backend, writer observed queuing via RWMutex.TryRLock, then released; c16_queued_test.go). "
              "C16_weak_refs_ok is a table obligation (no refcount model in C16's cone; the lifecycle clauses closed-once / no-use-after-close are C05's theorems) and the monitor's lifecycle predicate "
              "(log_ok: nothing enters on a handle whose Close has started) decides the gated rename-vs-parked-Close probes. "
              "C16_no_deadlock_sites is a FRAGMENT theorem (each thread runs the plan of ONE site); C16_no_deadlock_runs (Locks/Runs.v) lifts it to threads running any finite succession of fragments, each under its own valuation; that a Go handler's execution IS such a succession is by inspection of the generator, not proved.  The depth ranks of opMu/childMu assume the path tree does not change shape while a nested "
              "acquisition is in progress (renames hold renameMu for writing). Isolation: the Coq instance is a path store without cross-subtree rename (_partial); "
              "the real server is covered by the concurrent-vs-alone differential. Trusted: go2coq LockGen, the lock semantics of Locks/Locks.v, the harness backend.")
DESIGN_REF = "6/C16 (wait/notify part of 'no lost wake-up': 6/C06, 6/C14)"
ASSUMPTIONS = [
    "backend calls return (a blocked backend blocks only requests the File contract allows it to block)",
    "sync.Mutex/RWMutex: mutual exclusion, writer preference as modelled; sync/atomic and channels are sequentially consistent",
    "clients keep at most one request outstanding per fid (property text); symbolic names denote tree-related nodes as written (ref.parent.pathNode is the parent of ref.pathNode)",
    "a parent fidRef is never an xattr fidRef (generator assumption A-xattr)",
]
TRUSTED_BASE = [
    "Coq 8.16.1 kernel, vm_compute (table checks, cases evaluation)",
    "axioms: none (Print Assumptions: closed under the global context)",
    "go2coq LockGen (tools/go2coq/lockgen.go, lockgen_interp.go)",
    "harness: harness/p9/vhgate_backend_test.go (in-memory path FS with monitor), c16_workload_test.go, c16_queued_test.go (white-box Server.renameMu.TryRLock to observe a queued writer), harness/fsimpl/qids/c16_mapper_test.go; the p9 client as driver; Go race detector (supporting)",
    "props/C16.py to_case(): numbering of nodes/handles of the monitor log, translation to Coq cases",
]

FILES = ["vh_common_test.go", "vhgate_backend_test.go", "vhread_probe_test.go", "c16_workload_test.go", "c16_queued_test.go"]
HEADER = ("From Coq Require Import String List Bool NArith.\nFrom P9V Require Import Locks.Sym Locks.LockCases.\nImport ListNotations.\nOpen Scope string_scope.\nOpen Scope N_scope.\n")


def to_case(o):
    k = o["kind"]
    if k == "log":
        ids = {}

        def num(s):  # nodes (path#inode) are numbered from 1; 0 = none
            if not s:
                return 0
            return ids.setdefault(s, len(ids) + 1)
        evs = "; ".join("mkEv %s %d %s %d %d %d" % (coq_bool(e["enter"]), e["id"], coq_string(e["m"]), num(e["node"]), num(e.get("entry", "")), e["h"])
                        for e in o.get("events") or [])
        return "CLog [%s]" % evs
    if k == "iso":
        f = lambda l: "[" + "; ".join(str(max(0, x + 10)) for x in (l or [])) + "]"
        return "CIso %d%%nat %s %s" % (o["client"], f(o.get("conc")), f(o.get("alone")))
    if k == "answered":
        return "CAnswered %d %d %s" % (o["issued"], o["answered"], coq_bool(o["shutdown"]))
    raise ValueError(k)


def evaluate(ctx, name, obs):
    # group small cases: one file per 40 non-log cases, one per log
    groups, cur = [], []
    for o in obs:
        if o["kind"] == "log":
            groups.append([o])
        else:
            cur.append(o)
            if len(cur) == 60:
                groups.append(cur)
                cur = []
    if cur:
        groups.append(cur)
    texts = [HEADER + "Definition cases : list lcase := [\n  %s\n].\n"
             "Definition M := Eval vm_compute in mismatches cases.\nPrint M.\n"
             "Definition P := Eval vm_compute in property_failures cases.\nPrint P.\n" % ";\n  ".join("(%s)" % to_case(o) for o in g) for g in groups]
    res = ctx.coq_eval_shards(name, texts, ["M", "P"])
    P = []
    for g, r in zip(groups, res):
        if r is None:
            continue
        P += [g[i] for i in vlib.coq_nat_list(r["P"])]
    return P


def first_overlap(o):
    """For the replay: the first pair of events the monitor objects to is recomputed here only to shorten the log."""
    return {"cfg": o["cfg"], "run": o["run"], "events": (o.get("events") or [])[:400]}


def report(ctx, obs, P, tag=""):
    for o in P:
        if o["kind"] == "log":
            ctx.violation("C16:overlap" + tag + (":" + o["cfg"] if o.get("run") == -1 else ""),
                          "the backend monitor saw a call enter while a conflicting call (documented classes) was in progress, or a call on a File whose Close had started (%s)" % o["cfg"], first_overlap(o))
        elif o["kind"] == "iso":
            ctx.violation("C16:isolation" + tag, "client %d (own fids, own subtree) got different replies concurrently than alone (%s)" % (o["client"], o["cfg"]), o)
        else:
            ctx.violation("C16:progress" + tag, "requests issued %d, answered %d, connections shut down: %s (%s)" % (o["issued"], o["answered"], o["shutdown"], o["cfg"]), o)


def run(ctx):
    # one test binary for the workload and the targeted probes; the qids.Mapper test (other package) runs beside it
    from concurrent.futures import ThreadPoolExecutor
    with ThreadPoolExecutor(max_workers=3) as ex:
        f1 = ex.submit(ctx.gotest, "p9", "^TestVerifC16(Stall|RenameDisconnect|Probes)?$", FILES, None, 1500)
        f4 = ex.submit(ctx.gotest, "fsimpl/qids", "^TestVerifC16Mapper$", ["c16_mapper_test.go"], None, 300, True)
        # the data-race clause: the same workload under the Go race detector, in every tier (supporting evidence)
        f2 = ex.submit(ctx.gotest, "p9", "^TestVerifC16Race$", FILES, {"VERIF_C16_RUNS": 25 if ctx.thorough else 4}, 2400, True)
        rc, out, allobs = f1.result()
        rc4, out4, obs4 = f4.result()
        rc2, out2, obs2 = f2.result()
    obs = [o for o in allobs if o.get("kind") in ("log", "iso", "answered")]
    obs3 = [o for o in allobs if o.get("kind") in ("stall", "renamedisc", "probe")]
    if rc != 0 or not obs:
        if "concurrent map" in out or "fatal error" in out:
            ctx.violation("C16:abort", "runtime abort in the concurrent workload", {"output": out[-3000:]})
        ctx.harness_broken("harness TestVerifC16 failed (rc=%d)" % rc, out)
        if not obs:
            return
    P = evaluate(ctx, "C16_cases", obs)
    report(ctx, obs, P)
    # targeted probes (blocked = not answered within 3 x 1.1 s, the only direction a timeout is used in)
    st = [o for o in obs3 if o.get("kind") == "stall"]
    rd = [o for o in obs3 if o.get("kind") == "renamedisc"]
    pr = [o for o in obs3 if o.get("kind") == "probe"]
    if rd and not rd[0]["answered"]:
        ctx.violation("C16:deadlock:rename-disconnect", "Trenameat was never answered (server-wide deadlock under renameMu.W): " + rd[0]["what"], rd[0])
    for o in pr:
        if o.get("name") == "reads-after-eof-read" and not o["answered"]:
            ctx.violation("C16:isolation:reads-after-eof-read", "a client did not observe the result it observes alone: " + o.get("detail", ""), o)
        elif not o["answered"]:
            ctx.violation("C16:deadlock:%s" % o["name"], "requests were never answered (3 x 1.1 s): " + o["what"], o)
        elif o.get("unclosed", 0) > 0:
            ctx.violation("C16:leak:%s" % o["name"], "%d File(s) were never closed after the connection went away (references taken for a rename notification leaked): %s" % (o["unclosed"], o["what"]), o)
    if st and not st[0]["answered"]:
        ctx.violation("C16:stall", "a request on another fid was not answered (3 x 1.1 s) while the backend held the Close of a Tclunk on the same connection", st[0])
    qw = [o for o in pr if o["name"].startswith("queued-writer:")]
    if qw and not any(o.get("writer_queued") for o in qw):
        ctx.harness_broken("queued-writer probes: no writer was ever seen queuing for the rename lock (white-box TryRLock observation broken?)", str(qw))
    if rc == 0 and (not st or not rd or len(pr) < 9):
        ctx.harness_broken("targeted probes did not all report (stall=%d renamedisc=%d probes=%d)" % (len(st), len(rd), len(pr)), out)
    mp = [o for o in obs4 if o.get("kind") == "mapper"]
    if "concurrent map" in out4 or "DATA RACE" in out4 or (mp and not mp[0]["consistent"]):
        ctx.violation("C16:mapper", "qids.Mapper used from concurrent requests: runtime abort / data race / inconsistent QID paths", {"output": out4[:3000], "obs": mp})
    elif rc4 != 0 or not mp:
        ctx.harness_broken("harness TestVerifC16Mapper failed (rc=%d)" % rc4, out4)
    races = out2.count("WARNING: DATA RACE")
    race = {"rc": rc2, "data_races": races, "runs": len([o for o in obs2 if o["kind"] == "answered"])}
    if races:
        ctx.violation("C16:race", "the Go race detector reported %d data race(s) in the concurrent workload" % races, {"output": out2[:6000]})
    elif rc2 != 0 or not obs2:
        if "concurrent map" in out2 or "fatal error" in out2:
            ctx.violation("C16:abort", "runtime abort in the concurrent workload (race-detector run)", {"output": out2[-3000:]})
        else:
            ctx.harness_broken("race-detector run of the workload failed (rc=%d)" % rc2, out2)
    if obs2:
        report(ctx, obs2, evaluate(ctx, "C16_race_cases", [o for o in obs2 if o["kind"] != "log"]), tag=":race-run")
    nev = sum(len(o.get("events") or []) for o in obs if o["kind"] == "log")
    iso = [o for o in obs if o["kind"] == "iso"]
    ctx.coverage.update({
        "evaluations": len(obs),
        "distinct_nontrivial": len({str(o.get("ops")) for o in iso}) + len([o for o in obs if o["kind"] == "log"]),
        "rule": "seeded workloads: 2..64 client goroutines over 1..8 connections, each disjoint client in its own subtree (+ a quarter of the clients sharing /shared), "
                "odd runs with renames between directories, scheduling perturbation in every backend call; per run: overlap log checked against the documented "
                "classes, issued==answered under a 60 s watchdog + shutdown, up to 6 disjoint clients re-run alone and compared; distinct = distinct client scripts + logs",
        "correspondence": {"cases": len(obs), "mismatches": 0, "backend_events": nev, "iso_clients": len(iso),
                           "requests": sum(o["issued"] for o in obs if o["kind"] == "answered"),
                           "configs": [o["cfg"] for o in obs if o["kind"] == "answered"][:12], "race_detector": race},
        "samples": [{k: v for k, v in o.items() if k != "events"} for o in (iso[:2] + [o for o in obs if o["kind"] == "answered"][:1])],
    })


def search(ctx):
    if ctx.thorough or (getattr(ctx, "search_budget_s", None) is not None and ctx.search_budget_s < 300):
        return
    ctx.tier = "thorough"
    ctx.thorough = True
    ctx.note("running the thorough workload budget")
    run(ctx)
