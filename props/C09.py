"""C09 — name confinement."""
import vlib
import vsrv

ID = "C09"
PROPERTIES_FILE = "Properties/C09.v"
COQ_TARGETS = ["Properties/C09.vo", "Server/Cases.vo"]
LEVEL = "proof"
TECHNIQUE = ("Coq theorems over all strings/states/tapes about the Gallina model of the handlers: every path-component argument of every backend call is a safe name, "
             "unsafe components are refused with EINVAL before any backend call, walks go one component at a time through directories; "
             "tied to the code by go2coq HandlerGen (checked string fields) and a hostile-name differential")
LEVEL_TEXT = ("checkSafeName is proved equivalent to 'not empty, not . or .., no slash' by induction on the string; the model of every handler is proved to pass only safe names "
              "to the backend from any state whose path tree holds safe names (an invariant of every history), and to issue a named Walk/WalkGetAttr only on the File of a fidRef recorded as a directory (every history, every tape); every run re-checks the proofs, re-extracts which string fields "
              "of the T-messages are checked before any LookupFID, and drives the real server with hostile names in every name position.")
LEVEL_NOTE = ("Trusted: Coq kernel + vm_compute; hand model tied by HandlerGen.v and the differential; Go strings.Contains/Split modelled by contains_char/split_on (bytes). "
              "Server/Summaries.v model_traces is a hand-reviewed transcript of the alpha-normalised (local names positional) source traces, not derived from Handlers.v; "
              "only its guard sequences are rendered from the model's guard table. 'Only through directories' is a history theorem since round 5 (C09_dirs_only_every_history, "
              "Server/DirsHist.v: log invariant over every primitive and handler): the receiver of every named Walk/WalkGetAttr call of every history is the File of a fidRef whose RECORDED "
              "type is a directory; that the recorded type is the reported one is per construction site (walk components: C09_recorded_type_is_reported; attach: GetAttr's answer) and is "
              "judged on observed answers only by c09_step.")
DESIGN_REF = "6/C09"
ASSUMPTIONS = [
    "names longer than 65535 bytes cannot be sent (9P string length is 16 bits)",
    "sequential histories",
]
TRUSTED_BASE = [
    "go2coq SafeNameGen (translation of checkSafeName into a Gallina boolean function; Server/SafeNameTie.v proves it equal to Msg.safe_nameb for every string; strings.Contains = Server/SafeNamePrims.go_contains, hand model)",
    "Coq 8.16.1 kernel, vm_compute",
    "axioms: none",
    "go2coq HandlerGen + ConstGen",
    "hand-written model Server/*.v; harness/p9/vhsrv_*_test.go, c04_hist_test.go (fixed-history runner), c09_names_test.go",
    "lib/vsrv.py (python translation of observed histories into Coq cases: to_case / cases_text)",
]
WHICH = "P09"
TEST = "^TestVerifC09$"
FILES = vsrv.HARNESS_FILES + ["c04_hist_test.go", "c09_names_test.go"]


def run(ctx):
    rc, out, obs = ctx.gotest("p9", TEST, FILES, timeout=1500)
    if rc != 0 or not obs:
        ctx.harness_broken("harness %s failed (rc=%d)" % (TEST, rc), out)
        return
    hists = [h for h in obs if h.get("kind") == "hist"]
    for h in hists:
        if h.get("broken"):
            ctx.harness_broken("history %s: the server stopped answering (%s)" % (h["id"], h["broken"]), str(h["steps"][-1:])[:1500])
    good = [h for h in hists if h["steps"]]
    nm, nf = vsrv.evaluate(ctx, ID + "_cases", good, WHICH)
    st, distinct = vsrv.stats(good)
    hostile = sum(1 for h in good for s in h["steps"] for x in s["req"]["s"]
                  if bytes.fromhex(x) in (b"", b".", b"..") or b"/" in bytes.fromhex(x))
    ctx.coverage.update({
        "evaluations": st["steps"],
        "distinct_nontrivial": distinct,
        "rule": "every name position x hostile strings (empty, dots, embedded/trailing slashes, NUL/high bytes, 65535-byte names), attach names, walks through files/symlinks/devices, "
                "plus generated histories with 45% hostile names; " + vsrv.DISTINCT_RULE + "; samples: boundary = a request refused for an unsafe name",
        "correspondence": {"cases": st["steps"], "mismatches": nm, "property_failures": nf, "hostile_strings_sent": hostile, "distribution": st},
        "samples": vsrv.samples(good, boundary=lambda st: st["rt"] == 7 and st["errno"] == 22 and not st["calls"] and any(
            bytes.fromhex(x) in (b"", b".", b"..") or b"/" in bytes.fromhex(x) for x in st["req"]["s"])),
    })


def search(ctx):
    # thorough re-run only when the driver grants the time for it (ctx.search_budget_s)
    if ctx.thorough or getattr(ctx, "search_budget_s", 0) < 600:
        return
    ctx.tier = "thorough"
    ctx.thorough = True
    run(ctx)
