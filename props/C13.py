"""C13 — negotiated msize never exceeded by either peer."""
import vlib
from vlib import coq_bool

ID = "C13"
PROPERTIES_FILE = "Properties/C13.v"
COQ_TARGETS = ["Properties/C13.vo", "Frame/SizesCases.vo"]
LEVEL = "proof"
TECHNIQUE = ("Coq theorems (pure arithmetic over N: all msize, counts, file sizes, entry lists, buffer lengths, answer sequences) over a hand-written model of "
             "maxReplyPayload / tread.handle / treaddir.handle / rreaddir.encode / NewClient's msize adoption / payloadSize / chunk / Readdir's clamp; tied to the code by "
             "differential cases (raw Tread/Treaddir at a real Server, a real Client at a fake server), evaluated with vm_compute")
LEVEL_TEXT = ("Theorems for all values: an Rread frame is 11 + min(count, msize-11, available) <= msize and tread.handle does not panic; an Rreaddir frame is 11 + a prefix of whole "
              "entries within min(count, msize-11) <= msize; the client's messageSize is min(own, announced) (refused <= 153), payloadSize <= msize-153, every chunk <= payloadSize so "
              "every Twrite (23+chunk), Tread (23) and its reply (11+n, n <= count) and every Treaddir with its fullest reply fit. Every run re-checks the proofs and compares the model "
              "and the property with the sizes observed on the real server and client.")
LEVEL_NOTE = ("Trusted: Coq kernel + vm_compute; the hand model Frame/Sizes.v (tied by the differential only); ConstGen; largestFixedSize (153) and the fixed frame overheads are compared "
              "with the Go values by the harness. A backend returning more bytes than len(p) and a server answering a Tread with more than count are outside the property.")
DESIGN_REF = "6/C13"
ASSUMPTIONS = [
    "File.ReadAt returns at most len(p) bytes (io.ReaderAt contract); a remote server answers Tread/Treaddir with at most count bytes",
    "msize >= 11 on the server theorems (a Tread/Treaddir frame is 23 bytes, recv refuses it when msize < 23: C02_bad_size)",
    "client messageSize > 153 and < 2^32 (enforced by WithMessageSize / NewClient, modelled by adopt)",
]
TRUSTED_BASE = [
    "Coq 8.16.1 kernel, vm_compute (cases evaluation); no native_compute",
    "axioms: none (Print Assumptions: closed under the global context for every property theorem)",
    "go2coq ConstGen (headerLength, maximumLength, msg numbers)",
    "hand-written model Frame/Sizes.v, tied by harness/p9/c13_sizes_test.go + Frame/SizesCases.v",
]

SHARD = 220


def nlist(a):
    return "[" + "; ".join(str(int(x)) for x in (a or [])) + "]"


def sizes(a):
    a = a or []
    if len(a) > 40:
        for p in range(1, 65):
            if all(a[i] == a[i % p] for i in range(len(a))):
                return "(cyc %s %d)" % (nlist(a[:p]), len(a))
    return nlist(a)


def hist(h):
    return "[" + "; ".join("TV %d %s" % (t["msize"], coq_bool(t["ok"])) for t in h) + "]"


def opt(x):
    return "None" if x is None or x < 0 else "(Some %d)" % x


OPS = {"write": 0, "read": 1, "readdir": 2, "getxattr": 3}
RES = {"ok": 0, "toosmall": 1, "refused": 2}


def to_case(o):
    k = o["kind"]
    if k == "consts":
        return "SConsts %d %d %d %d %d %d %d %d %d" % (o["largestFixedSize"], o["headerLength"], o["maximumLength"], o["tread"], o["twrite0"],
                                                        o["treaddir"], o["rread0"], o["rreaddir0"], o["rlerror"])
    if k == "ssetup":
        return "SSetup %s" % coq_bool(o["ok"])
    if k == "shist":
        return "SHist %s %s" % (hist(o["hist"]), nlist(o.get("announced")))
    if k == "sread":
        return "SRead %s %d %d %d %d %d %d %d %d %s %s" % (hist(o["hist"]), o["ann"], o["count"], o["fsize"], o["off"], o["rtype"], o["rsize"], o.get("errno", 0), o["err"],
                                                           opt(o.get("rcount")), opt(o.get("asked")))
    if k == "sxread":
        return "SXRead %s %d %d %d %d %d %d %d %d %s" % (hist(o["hist"]), o["ann"], o["count"], o["off"], o["vlen"], o["rtype"], o["rsize"], o.get("errno", 0), o["err"], opt(o.get("rcount")))
    if k == "sreaddir":
        return "SReaddir %s %d %d %s %d %d %d %s" % (hist(o["hist"]), o["ann"], o["count"], sizes(o.get("sizes")), o["rtype"], o["rsize"], o["err"], opt(o.get("rcount")))
    if k == "client":
        frames = "[" + "; ".join("(%d, %d, %d)" % (f["type"], f["size"], f["count"]) for f in (o.get("frames") or [])) + "]"
        alls = nlist([f["size"] for f in (o.get("all") or [])][1:])   # without the Tversion itself
        answers = "[" + "; ".join("(%d, %s)" % (a[0], coq_bool(a[1] != 0)) for a in (o.get("answers") or [])) + "]"
        return "SClient %d %d %d %d %d %d %d %d %s %s %s" % (o["req"], o["announce"], 3 if o.get("hang") else RES[o["result"]], o.get("msize", 0), o.get("payload", 0), OPS[o["op"]],
                                                            o["n"], o["avail"], frames, alls, answers)
    raise ValueError(k)


def run(ctx):
    rc, out, obs = ctx.gotest("p9", "^TestVerifC13$", ["vh_common_test.go", "c02_reader_test.go", "c13_sizes_test.go"], timeout=1500)
    if rc != 0 or not obs:
        ctx.harness_broken("harness TestVerifC13 failed (rc=%d)" % rc, out)
        return
    texts = []
    for i in range(0, len(obs), SHARD):
        cases = ";\n  ".join("(%s)" % to_case(o) for o in obs[i:i + SHARD])
        texts.append("From Coq Require Import NArith List Bool.\nFrom P9V Require Import Frame.Sizes Frame.SizesCases.\nImport ListNotations.\nOpen Scope N_scope.\n"
                     "Definition cases : list scase := [\n  %s\n].\n"
                     "Definition M := Eval vm_compute in mismatches cases.\nPrint M.\n"
                     "Definition P := Eval vm_compute in property_failures cases.\nPrint P.\n" % cases)
    res = ctx.coq_eval_shards("C13_cases", texts, ["M", "P"], workers=12)
    nm = 0
    kinds = {}
    for o in obs:
        k = o["kind"] + (":" + o["op"] if "op" in o else "")
        kinds[k] = kinds.get(k, 0) + 1
    for si, r in enumerate(res):
        if r is None:
            continue
        for idx in vlib.coq_nat_list(r["P"]):
            o = obs[si * SHARD + idx]
            ctx.violation("C13:%s%s" % (o["kind"], ":" + o["op"] if "op" in o else ""),
                          "a frame exceeds the announced msize (%s)" % o["kind"], {k: v for k, v in o.items() if k not in ("sizes", "all", "replies") or len(str(v)) < 2000})
        for idx in vlib.coq_nat_list(r["M"]):
            o = obs[si * SHARD + idx]
            nm += 1
            if nm <= 5:
                ctx.note("model/implementation disagree on: %s" % str({k: v for k, v in o.items() if k != "sizes"})[:600])
            ctx.broken.append({"kind": "correspondence", "what": "Frame/Sizes.v disagrees with the implementation (%s)" % o["kind"],
                               "case": {k: v for k, v in o.items() if len(str(v)) < 2000}})
    distinct = len({str(sorted((k, str(v)) for k, v in o.items() if k != "id")) for o in obs})
    small = lambda o: {k: v for k, v in o.items() if len(str(v)) < 300}
    ctx.coverage.update({
        "evaluations": len(obs),
        "distinct_nontrivial": distinct,
        "rule": "server: msize {23,35,154,4096,64K,4MiB,2^32-1,...} x Tread/Treaddir counts {0,1,12,m-12,m-11,m-10,m-1,m,m+1,4MiB-11,4MiB,4MiB+1,2^32-1,m/2} x file sizes around m "
                "x directories (0..m/24+50 entries, backend honouring / ignoring count); client: WithMessageSize {154,1K,8K,64K} x announced {same,-1,0,153,154,155,665,666,1200,larger,half,2^32-1} "
                "x WriteAt/ReadAt lengths around payloadSize (with short acknowledgements) x Readdir counts around msize x GetXattr sizes; distinct = distinct observation records",
        "correspondence": {"cases": len(obs), "mismatches": nm, "by_kind": kinds},
        "samples": [small(obs[0])] + [small(o) for o in obs if o["kind"] == "sread"][:1] + [small(o) for o in obs if o["kind"] == "client"][:1],
    })


def search(ctx):
    if ctx.thorough:
        return
    ctx.tier = "thorough"
    ctx.thorough = True
    run(ctx)
