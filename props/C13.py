"""C13 — negotiated msize never exceeded by either peer."""
import vlib
from vlib import coq_bool

ID = "C13"
PROPERTIES_FILE = "Properties/C13.v"
COQ_TARGETS = ["Properties/C13.vo", "Frame/SizesCases.vo"]
LEVEL = "proof"
TECHNIQUE = ("Coq theorems (pure arithmetic over N: all msize, counts, file sizes, entry lists, buffer lengths, answer sequences) over a hand-written model of "
             "maxReplyPayload / tread.handle / treaddir.handle / rreaddir.encode / NewClient's msize adoption / payloadSize / chunk / Readdir's clamp; tied to the code by "
             "differential cases (raw Tread/Treaddir at a real Server, a real Client at a fake server), evaluated with vm_compute")
LEVEL_TEXT = ("Theorems for all values: an Rread frame is 11 + min(count, msize-11, available) <= msize and tread.handle does not panic; an Rreaddir frame is 11 + a prefix of whole "
              "entries within min(count, msize-11) <= msize; the client's messageSize is min(own, announced) (refused <= 153), payloadSize <= msize-153, every chunk <= payloadSize so "
              "every Twrite (23+chunk), Tread (23) and its reply (11+n, n <= count) and every Treaddir with its fullest reply fit. Every run re-checks the proofs and compares the model "
              "and the property with the sizes observed on the real server and client.")
LEVEL_NOTE = ("Trusted: Coq kernel + vm_compute; the hand model Frame/Sizes.v, tied by go2coq ArithGen for its arithmetic (connState.maxReplyPayload, roundDown, every assignment to Client.payloadSize, the final value of count in tread.handle / treaddir.handle / clientFile.Readdir are TRANSLATED from the source on every run into Gallina over Z with uint32 wrap-around and proved equal to the model's functions for all 32-bit values: C13_source_arithmetic_is_model; the two clauses restated over the translated functions: C13_source_server_clamps_fit, C13_source_client_payload_fits, C13_source_client_readdir_fits; where count and t.Count are read is a reviewed table, C13_source_count_uses) and by the differential for the rest; ConstGen; CodecGen (layouts). largestFixedSize is RECOMPUTED in Coq (Frame/SizesGen.v: max over all registered types of FixedSize() / encoded length of the zero value, from the layouts "
              "go2coq reads off messages.go) and proved equal to the 153 the client model uses (C13_largest_fixed_size), with header + fixed part of every payloader below it (C13_largest_covers_payloaders; the payloaders-only maximum 16 is refuted); "
              "registry.register()'s own max loop is not read by a generator: the value the running registry holds and the fixed frame overheads are compared with the Coq values on every run (case `consts`). 'The msize it announced' is read as the msize of the LAST Rversion that announced one on the connection (an 'unknown' Rversion carries 0 and "
              "changes nothing): C13_session_msize / C13_session are theorems over Tversion histories and the harness replays 2-3 Tversions per connection. `agrees` demands the exact clamps (msize-11, roundDown(msize-153,512)): "
              "a behaviour-preserving change of a clamp is reported as a model mismatch by design. Timeouts: a request unanswered for 15 s is retried on up to two fresh connections and a client call caught by the 10 s watchdog is "
              "repeated up to three times; only a stall confirmed three times is reported, and then as a model mismatch (the model says the call returns), never as an msize violation. "
              "A backend returning more bytes than len(p) and a server answering a Tread with more than count are outside the property. White-box harness (cs/Client fields, registry): renaming them breaks its compilation.")
DESIGN_REF = "6/C13"
ASSUMPTIONS = [
    "File.ReadAt returns at most len(p) bytes (io.ReaderAt contract); a remote server answers Tread/Treaddir with at most count bytes",
    "msize >= 11 on the server theorems (a Tread/Treaddir frame is 23 bytes, recv refuses it when msize < 23: C02_bad_size)",
    "client messageSize > 153 and < 2^32 (enforced by WithMessageSize / NewClient, modelled by adopt)",
]
TRUSTED_BASE = [
    "Coq 8.16.1 kernel, vm_compute (cases evaluation); no native_compute",
    "axioms: none (Print Assumptions: closed under the global context for every property theorem)",
    "go2coq ConstGen (headerLength, maximumLength, msg numbers); CodecGen (message layouts, FixedSize values: largestFixedSize is recomputed from them)",
    "hand-written model Frame/Sizes.v, tied by harness/p9/c13_sizes_test.go + Frame/SizesCases.v",
]

SHARD = 220


def nlist(a):
    return "[" + "; ".join(str(int(x)) for x in (a or [])) + "]"


def sizes(a):
    a = a or []
    if len(a) > 40:
        for p in range(1, 65):
            if all(a[i] == a[i % p] for i in range(len(a))):
                return "(cyc %s %d)" % (nlist(a[:p]), len(a))
    return nlist(a)


def hist(h):
    return "[" + "; ".join("TV %d %s" % (t["msize"], coq_bool(t["ok"])) for t in h) + "]"


def opt(x):
    return "None" if x is None or x < 0 else "(Some %d)" % x


OPS = {"write": 0, "read": 1, "readdir": 2, "getxattr": 3}
RES = {"ok": 0, "toosmall": 1, "refused": 2}


def to_case(o):
    k = o["kind"]
    if k == "consts":
        return "SConsts %d %d %d %d %d %d %d %d %d" % (o["largestFixedSize"], o["headerLength"], o["maximumLength"], o["tread"], o["twrite0"],
                                                        o["treaddir"], o["rread0"], o["rreaddir0"], o["rlerror"])
    if k == "ssetup":
        return "SSetup %s" % coq_bool(o["ok"])
    if k == "shist":
        return "SHist %s %s" % (hist(o["hist"]), nlist(o.get("announced")))
    if k == "sread":
        return "SRead %s %d %d %d %d %d %d %d %d %s %s" % (hist(o["hist"]), o["ann"], o["count"], o["fsize"], o["off"], o["rtype"], o["rsize"], o.get("errno", 0), o["err"],
                                                           opt(o.get("rcount")), opt(o.get("asked")))
    if k == "sxread":
        return "SXRead %s %d %d %d %d %d %d %d %d %s" % (hist(o["hist"]), o["ann"], o["count"], o["off"], o["vlen"], o["rtype"], o["rsize"], o.get("errno", 0), o["err"], opt(o.get("rcount")))
    if k == "sreaddir":
        return "SReaddir %s %d %d %s %d %d %d %s" % (hist(o["hist"]), o["ann"], o["count"], sizes(o.get("sizes")), o["rtype"], o["rsize"], o["err"], opt(o.get("rcount")))
    if k == "client":
        frames = "[" + "; ".join("(%d, %d, %d)" % (f["type"], f["size"], f["count"]) for f in (o.get("frames") or [])) + "]"
        alls = nlist([f["size"] for f in (o.get("all") or [])][1:])   # without the Tversion itself
        answers = "[" + "; ".join("(%d, %s)" % (a[0], coq_bool(a[1] != 0)) for a in (o.get("answers") or [])) + "]"
        return "SClient %d %d %d %d %d %d %d %d %s %s %s" % (o["req"], o["announce"], 3 if o.get("hang") else RES[o["result"]], o.get("msize", 0), o.get("payload", 0), OPS[o["op"]],
                                                            o["n"], o["avail"], frames, alls, answers)
    raise ValueError(k)


def run(ctx):
    rc, out, obs = ctx.gotest("p9", "^TestVerifC13$", ["vh_common_test.go", "c02_reader_test.go", "c13_sizes_test.go"], timeout=1500)
    if rc != 0 or not obs:
        ctx.harness_broken("harness TestVerifC13 failed (rc=%d)" % rc, out)
        return
    texts = []
    for i in range(0, len(obs), SHARD):
        cases = ";\n  ".join("(%s)" % to_case(o) for o in obs[i:i + SHARD])
        texts.append("From Coq Require Import NArith List Bool.\nFrom P9V Require Import Frame.Sizes Frame.SizesCases.\nImport ListNotations.\nOpen Scope N_scope.\n"
                     "Definition cases : list scase := [\n  %s\n].\n"
                     "Definition M := Eval vm_compute in mismatches cases.\nPrint M.\n"
                     "Definition P := Eval vm_compute in property_failures cases.\nPrint P.\n" % cases)
    res = ctx.coq_eval_shards("C13_cases", texts, ["M", "P"], workers=12)
    nm = 0
    kinds = {}
    for o in obs:
        k = o["kind"] + (":" + o["op"] if "op" in o else "")
        kinds[k] = kinds.get(k, 0) + 1
    for si, r in enumerate(res):
        if r is None:
            continue
        for idx in vlib.coq_nat_list(r["P"]):
            o = obs[si * SHARD + idx]
            ctx.violation("C13:%s%s" % (o["kind"], ":" + o["op"] if "op" in o else ""),
                          "a frame exceeds the announced msize (%s)" % o["kind"], {k: v for k, v in o.items() if k not in ("sizes", "all", "replies") or len(str(v)) < 2000})
        for idx in vlib.coq_nat_list(r["M"]):
            o = obs[si * SHARD + idx]
            nm += 1
            if nm <= 5:
                ctx.note("model/implementation disagree on: %s" % str({k: v for k, v in o.items() if k != "sizes"})[:600])
            ctx.broken.append({"kind": "correspondence", "what": "Frame/Sizes.v disagrees with the implementation (%s)" % o["kind"],
                               "case": {k: v for k, v in o.items() if len(str(v)) < 2000}})
    def cls(o):
        """distinct behaviour = (kind, Tversion history, position of the count relative to the msize in force
        (below msize-11 / msize-11 / within the last 11 / above msize / above 4 MiB), data available vs count,
        wrapping offset?, reply type+errno, frame == msize?); client: (op, requested vs announced msize, number of frames, result)"""
        k = o["kind"]
        if k in ("sread", "sxread", "sreaddir"):
            a, c = o["ann"], o["count"]
            pos = "gt4M" if c > 4194304 else "gtms" if c > a else "last11" if c > a - 11 else "eq" if c == a - 11 else "below"
            return (k, tuple((t["msize"], t["ok"]) for t in o["hist"]), pos, o.get("off", 0) > 2**63, o["rtype"], o.get("errno", 0), o["rsize"] == a,
                    o.get("honour"), (o.get("fsize", o.get("vlen", 0)) >= c))
        if k == "client":
            return (k, o["op"], o["req"], o["announce"], len(o.get("frames") or []), o["result"], o.get("hang"))
        return (k, str(o.get("hist")))
    small = lambda o: {k: v for k, v in o.items() if len(str(v)) < 300}
    def first(pred, why):
        for o in obs:
            if pred(o):
                return [{"why": why, "case": small(o)}]
        return []
    samples = (first(lambda o: o["kind"] == "sread" and len(o["hist"]) > 1 and o["rsize"] == o["ann"], "renegotiated session, Rread exactly fills the last announced msize")
               + first(lambda o: o["kind"] == "sxread" and o["off"] > 2**63 and o["rtype"] == 7, "xattr Tread with a wrapping offset: EINVAL")
               + first(lambda o: o["kind"] == "sreaddir" and o["count"] > o["ann"] and o["rsize"] > o["ann"] - 40, "Treaddir count above msize: listing cut to whole entries")
               + first(lambda o: o["kind"] == "client" and o["result"] == "ok" and o["announce"] < o["req"] and len(o.get("frames") or []) > 1, "client chunks for a lowered msize")
               + first(lambda o: o["kind"] == "client" and o["result"] == "toosmall", "client refuses an msize <= 153"))
    ctx.coverage.update({
        "evaluations": len(obs),
        "distinct_nontrivial": len({cls(o) for o in obs}),
        "distinct_rule": cls.__doc__,
        "distinct_records": len({str(sorted((k, str(v)) for k, v in o.items() if k != "id")) for o in obs}),
        "rule": "server: msize {23,35,154,4096,64K,4MiB,2^32-1,...} x Tread/Treaddir counts {0,1,12,m-12,m-11,m-10,m-1,m,m+1,4MiB-11,4MiB,4MiB+1,2^32-1,m/2} x file sizes around m "
                "x xattr values around m with offsets {0,7,len,len+1,2^64-1,2^64-2,2^64-m,...} x directories (0..m/24+50 entries, backend honouring / ignoring count); "
                "sessions with 2-3 Tversions (smaller, larger, refused string, msize 0 in between) x counts around EVERY msize of the history; "
                "client: WithMessageSize {154,1K,(8K),64K} x announced {same,-1,0,153,154,155,665,666,1200,larger,half,2^32-1,P..P+23,523,524,...} "
                "x WriteAt/ReadAt lengths around payloadSize (with short acknowledgements) x Readdir counts around msize x GetXattr sizes",
        "correspondence": {"cases": len(obs), "mismatches": nm, "by_kind": kinds,
                           "stalls_retried": sum(o.get("stalls", 0) for o in obs), "client_watchdog_hits": sum(1 for o in obs if o.get("hang"))},
        "samples": samples,
    })


def search(ctx):
    if ctx.thorough or all(b.get("kind") in ("obligation", "translator", "forbidden-vernacular") for b in ctx.broken):
        return  # a broken proof / refused table is not made more concrete by a longer harness run
    ctx.tier = "thorough"
    ctx.thorough = True
    run(ctx)
