"""C03 — client/server transparency for every File operation at every version."""
import vlib
from vlib import coq_string, coq_bool

ID = "C03"
PROPERTIES_FILE = "Properties/C03.v"
COQ_TARGETS = ["Properties/C03.vo", "Client/ClientCases.vo"]
LEVEL = "proof"
TECHNIQUE = ("Coq theorems over a table-driven model: go2coq extracts from p9/client_file.go the T-message literals of every clientFile method "
             "(field <- parameter/receiver fid/constant, version predicate, reply fields, fid Get/Put sites); obligation: extracted table = reviewed table; "
             "the model interprets the table, applies the codec's rewriting and a hand-written handler->backend-call table; ExtractErrno as a function on error trees; "
             "differential runs through real client + real server + recording backend at forced versions 0..7")
LEVEL_TEXT = ("For all versions 0..7 and all argument values: the backend call caused by each single-exchange method equals the specified call (permissions masked, "
              "uid/gid dropped below version 3, Rename/Remove as RenameAt/UnlinkAt on the parent, walk per component, Readdir count clamped); only message types the "
              "version defines; ExtractErrno through any wrapping depth (induction); SetXattr/RemoveXattr local ENOSYS. Every run regenerates the table from the source, "
              "re-checks the proofs, and compares backend call logs, returned values and errnos of 20 methods x 8 versions x generated arguments/answers with the model.")
LEVEL_NOTE = ("Composed methods (GetXattr/ListXattrs, WalkGetAttr below version 2) are modelled as functions (Client/Composed.v) with theorems; their tie to the source is the "
              "statement text in the reviewed table. The handler table is proved equal to the interpretation of HandlerGen's backend-call events for 22 T-messages + Tremove/Tclunk; "
              "for Twalk/Twalkgetattr/Txattrwalk/Tattach the set of backend calls/delegations/lookups in handlers.go is tied (C03_walk_handlers_events) but their control flow "
              "(one walkOne per component, the ENOSYS fallback WalkGetAttr -> Walk+GetAttr, Close of the walked file when GetAttr fails, the branch on len(t.Name), Attach+GetAttr) "
              "is modelled by hand in ClientModel.handler_calls and tied by the differential only (success paths and first-failure paths with a recording backend). "
              "Result values are compared field by field (backend answers drawn per call; reply-field sources of every handler read by ResultGen: C03_reply_sources / C03_results_identity). "
              "Sequences through several handles (two handles per directory, renames onto the own name / within / across directories, each followed by SetAttr through the entry's handle) "
              "run against Client/PathSeq.v, a hand model of the path-tree bookkeeping of Trename/Trenameat (same-entry short-circuit, markChildDeleted, re-registration); its short-circuit "
              "flag is computed from HandlerGen's guard text (PathSeqTie.rename_guard: path-node comparison, either operand order); C03_rename_keeps_entry_partial is stated for Trenameat only. "
              "ExtractErrno is proved a function of the depth-first leaf sequence of the error tree (Join / multi-%w / Wrap to any depth: C03_errno_trees); linux/errors.go itself is a hand model "
              "(Errs.extract) tied by 418+ generated trees and every failing operation, Close failures (joined by fidRef.DecRef) included. "
              "ExtractErrno theorems are stated for chains whose syscall.Errno values are non-zero (errno 0 is not an error value; the model reproduces what the code does with it). "
              "Trusted: Coq kernel + vm_compute, go2coq ClientGen, Go's errors.Is/As semantics as modelled by Errs.find.")
DESIGN_REF = "6/C03"
ASSUMPTIONS = [
    "the codec is lossless apart from the permission mask and the 32-bit PID (C01)",
    "the handle is bound to the backend File it was derived from (C04/C08); server-side guards (opened, deleted, mode) are satisfied",
    "errors.As/errors.Is traverse Unwrap() error and Unwrap() []error depth-first in order",
]
TRUSTED_BASE = [
    "Coq 8.16.1 kernel, vm_compute/cbv (finite tables, cases evaluation); no native_compute",
    "axioms: none (Print Assumptions: closed under the global context)",
    "go2coq ClientGen (table of T-message literals per clientFile method), ConstGen (thresholds, masks, errno numbers), HandlerGen (handler traces: C03_handler_table, rename guard) and ResultGen (reply-field sources)",
    "props/C03.py to_case (observation -> Coq case), harness helpers vhclVerConn (version forced by rewriting the Tversion frame), vh03Flat (reflection flattening of values), vhclClassify (errors.As)",
    "hand-written Client/PathSeq.v (path-tree bookkeeping of renames), tied by the renseq cases",
    "go2coq ErrnoGen (statement-by-statement translation of linux.ExtractErrno + errors_linux.go sysErrno over Errs.v's error trees; Client/ErrnoTie.v proves it equal to Errs.extract for every tree; errors.As/errors.Is = find/has are hand models)",
    "hand-written Client/ClientModel.v (interpreter, wire, handler_calls, expected) and Client/Errs.v, tied by harness/p9/c03_test.go, harness/linux/c03_errno_test.go, Client/ClientCases.v",
]


def bstr(a):
    return coq_string(bytes(a))


def val(v):
    if "n" in v:
        return "VN %s" % v["n"]
    if "s" in v:
        return "VS %s" % bstr(v["s"] or [])
    if "l" in v:
        return "VL [%s]" % "; ".join(bstr(x or []) for x in (v["l"] or []))
    if "r" in v:
        return "VR [%s]%%N" % "; ".join(str(x) for x in v["r"]) if v["r"] else "VR []"
    if "f" in v:
        return "VFile %d" % v["f"]
    if "nameof" in v:
        return "VNameOf %d" % v["nameof"]
    raise ValueError(v)


def errv(j):
    k = j["k"]
    if k == "linux":
        return "LinuxErrno %d" % j["n"]
    if k == "sys":
        return "SysErrno %d" % j["n"]
    if k == "wrap":
        return "Wrap (%s)" % errv(j["e"])
    if k == "join":
        return "Join [%s]" % "; ".join(errv(e) for e in j["es"])
    return {"notexist": "OsNotExist", "exist": "OsExist", "permission": "OsPermission", "invalid": "OsInvalid", "opaque": "Opaque"}[k]


def target(t):
    if "fid" in t:
        return "TFid %d" % t["fid"]
    if "parentof" in t:
        return "TParentOf %d" % t["parentof"]
    return "TWalked"


def ocalls(cs):
    return "; ".join("mkoc %s (%s) [%s]" % (coq_string(c["m"]), target(c["on"]), "; ".join(val(a) for a in (c["args"] or []))) for c in (cs or []))


def nl(a):
    return "[" + "; ".join(str(x) for x in a) + "]%N" if a else "[]"


def to_case(o):
    if o["kind"] == "xattr":
        e = o["err"]
        err = "(Some %d%%N)" % e["n"] if e["k"] == "errno" else "None"
        conn = coq_bool(e["k"] not in ("nil", "errno"))
        return "CXattr %s %d %s %d%%nat %s %d %s [%s] %s %s %s %s" % (
            coq_bool(o["list"]), o["cs"], nl(o["value"]), o["drop"], "(Some (%s))" % errv(o["answer"]) if o.get("answer") else "None",
            o["fid"], bstr(o["name"] or []), ocalls(o["calls"]), coq_bool(o["returned"]), nl(o["got"] or []), err, conn)
    if o["kind"] == "wga":
        e = o["err"]
        err = "(Some %d%%N)" % e["n"] if e["k"] == "errno" else "None"
        return "CWga %d [%s] %d %s [%s] %s [%s] [%s]" % (o["version"], "; ".join(bstr(x or []) for x in (o["names"]["l"] or [])), o["fid"],
                                                        coq_bool(o["getattr_fails"]), ocalls(o["calls"]), err,
                                                        "; ".join(val(x) for x in (o.get("ret") or [])), "; ".join(val(x) for x in (o.get("ans") or [])))
    if o["kind"] == "errno":
        return "CErr (%s) %d" % (errv(o["answer"]), o["errno"])
    if o["kind"] == "renseq":
        def sop(st):
            if st["op"] == "renameat":
                return "SRenameAt %d%%nat %s %d%%nat %s" % (st["d"], bstr(st["old"] or []), st["d2"], bstr(st["new"] or []))
            if st["op"] == "rename":
                return "SRename %d%%nat %d%%nat %s" % (st["f"], st["d2"], bstr(st["new"] or []))
            return "SProbe %d%%nat %s [%s]" % (st["f"], coq_string(st["m"]), "; ".join(val(a) for a in st["args"]))
        def serr(e):
            return "None" if e["k"] == "nil" else ("(Some %d%%N)" % e["n"] if e["k"] == "errno" else "(Some 4294967295%N)")
        return "CSeq %d %s %s [%s]" % (o["version"], nl(o["fids"]), bstr(o["fname"] or []),
                                        "; ".join("(%s, [%s], %s)" % (sop(st), ocalls(st["calls"]), serr(st["err"])) for st in o["steps"]))
    params = "fun k => " + "".join("if (k =? %s)%%string then %s else " % (coq_string(k), val(v)) for k, v in sorted(o["params"].items())) + 'VS "?"'
    pfid = "fun k => (" + "".join("if (k =? %s)%%string then %d else " % (coq_string(k), v) for k, v in sorted(o["pfid"].items())) + "0)%N"
    calls = "; ".join("mkoc %s (%s) [%s]" % (coq_string(c["m"]), target(c["on"]), "; ".join(val(a) for a in (c["args"] or []))) for c in (o["calls"] or []))
    e = o["err"]
    err = "None" if e["k"] == "nil" else ("(Some %d%%N)" % e["n"] if e["k"] == "errno" else "None")
    conn = coq_bool(e["k"] not in ("nil", "errno"))
    return "COp %s %d (mkenv (%s) %d 0 (%s) %d) %s (%s) [%s] %s %s %s %s" % (
        coq_string(o["op"]), o["version"], params, o["fid"], pfid, o["msize"], coq_bool(o["fail"]),
        errv(o["answer"]) if o.get("answer") else "Opaque", calls, err, conn,
        "[" + "; ".join(val(x) for x in (o.get("ret") or [])) + "]", "[" + "; ".join(val(x) for x in (o.get("ans") or [])) + "]")


HEADER = ("From Coq Require Import NArith String List.\nFrom P9V Require Import Base.Str gen.ClientGen Client.Chunk Client.ClientModel Client.Errs Client.Composed Client.PathSeq Client.ClientCases.\n"
          "Import ListNotations.\nOpen Scope string_scope.\nOpen Scope N_scope.\n"
          "Definition cases : list c03case := [\n  %s\n].\n"
          "Definition M := Eval vm_compute in mismatches cases.\nPrint M.\n"
          "Definition P := Eval vm_compute in property_failures cases.\nPrint P.\n")


def run(ctx):
    rc, out, obs = ctx.gotest("p9", "^TestVerifC03$", ["vh_common_test.go", "vhcl_common_test.go", "c03_test.go"], timeout=900)
    if rc != 0 or not obs:
        ctx.harness_broken("harness TestVerifC03 failed (rc=%d)" % rc, out)
    rc2, out2, obs2 = ctx.gotest("linux", "^TestVerifC03Errno$", ["c03_errno_test.go"], timeout=300)
    if rc2 != 0 or not obs2:
        ctx.harness_broken("harness TestVerifC03Errno failed (rc=%d)" % rc2, out2)
    obs = (obs or []) + (obs2 or [])
    if not obs:
        return
    shard = 90
    shards = [list(range(i, min(i + shard, len(obs)))) for i in range(0, len(obs), shard)]
    texts = [HEADER % ";\n  ".join("(%s)" % to_case(obs[i]) for i in sh) for sh in shards]
    res = ctx.coq_eval_shards("C03_cases", texts, ["M", "P"], workers=12)
    nm = 0
    kinds = {}
    for o in obs:
        kk = o["kind"] + ("/" + o["op"] if "op" in o else "")
        kinds[kk] = kinds.get(kk, 0) + 1
    for sh, r in zip(shards, res):
        if r is None:
            continue
        for idx in vlib.coq_nat_list(r["P"]):
            o = obs[sh[idx]]
            ctx.violation("C03:%s" % o.get("op", o["kind"]), "observed behaviour violates C03 (%s)" % o.get("op", o["kind"]), o)
        for idx in vlib.coq_nat_list(r["M"]):
            o = obs[sh[idx]]
            nm += 1
            if nm <= 5:
                ctx.note("model/implementation disagree on: %s" % str(o)[:700])
            # the model's call is the specified one (C03_transparent): a disagreement on an operation is a concrete failing input
            ctx.violation("C03:model:%s" % o.get("op", o["kind"]), "backend call log / result differs from the proved specification (%s)" % o.get("op", o["kind"]), o)
    distinct = len({str(sorted((k, str(v)) for k, v in o.items() if k != "id")) for o in obs})
    ctx.coverage.update({
        "evaluations": len(obs),
        "distinct_nontrivial": distinct,
        "rule": "21 operation kinds x versions 0..7 (forced by rewriting the Tversion frame) x {backend succeeds, backend fails with a generated error tree}; arguments: 32-bit "
                "modes/flags/ids from {0,1,0o777,0o7777,0o17777,2^32-1,2^32-2,2^31,random,setuid|setgid|sticky,type bits}, 64-bit offsets/sizes/times, names of 1..24 "
                "arbitrary bytes; ExtractErrno on 400 (12000 thorough) generated error trees of depth <= 4 (Wrap, PathError, Join) + the f2c8a14 corpus; "
                "24 (x3 thorough) rename sequences of 5 renames + 5 probes through two handles per directory at versions 0..7; distinct = distinct records",
        "correspondence": {"cases": len(obs), "mismatches": nm, "by_kind": kinds},
        "samples": [x for x in (next((o for o in obs if o.get("op") == "Mkdir" and o.get("version") == 2), None),
                                next((o for o in obs if o.get("op") == "Lock"), None),
                                next((o for o in obs if o["kind"] == "errno" and o["answer"]["k"] == "join"), None)) if x is not None],
    })


def search(ctx):
    """Obligation or correspondence broken and no observed failure: look further within ctx.search_budget_s."""
    if ctx.thorough:
        return
    if getattr(ctx, "search_budget_s", 900) >= 600:
        ctx.tier = "thorough"
        ctx.thorough = True
    else:
        ctx.seed += 7919            # quick budget: one more quick pass with another seed
    run(ctx)
