"""C08 — path coherence under rename/unlink and fencing of deleted paths."""
import refs_cases

ID = "C08"
PROPERTIES_FILE = "Properties/C08.v"
COQ_TARGETS = ["Properties/C08.vo", "Refs/Cases.vo", "Refs/RefStep.vo", "Refs/FenceProofs.vo", "Refs/TreeStep.vo", "Refs/BindSplit.vo", "Refs/GenTie.vo"]
LEVEL = "proof"
TECHNIQUE = ("Coq theorems (induction over all request histories) over a hand-written sequential Gallina model of the path tree "
             "(childNodes/childRefs/childRefNames/deleted, renameChildTo, notifyNameChange, markChildDeleted) composed with a path-addressed "
             "backend model (PathFS); model and backend twin tied to the code by a differential against the real Server.Handle plus gated "
             "two-connection scenarios; static tie: go2coq/RefsGen event skeletons of notifyNameChange, renameChildTo, markChildDeleted, "
             "notifyDelete, doWalk, DecRef, stop, Lookup/Insert/DeleteFID = a table reviewed against the model")
LEVEL_TEXT = ("Proved in Coq. (1) History theorem, every backend: C08_tree_inv (childRefs/childRefNames agree, registered refs are live and sit "
              "under their parent's node, live non-deleted refs are registered, childNodes injective, ids in range). (2) History theorems for the "
              "PathFS backend (pathB, Refs/Coherent*.v, Refs/Notified*.v; they use (1)): C08_coherent - after every history, all request kinds, "
              "every live non-fenced fid reaches the object it was bound to; C08_no_tree_panic; C08_notified - the Renamed calls of a rename are "
              "exactly the registered fidRefs at and below the moved entry, parents first. (3) Per-request theorems, every backend and every state "
              "(guard unfoldings, not history theorems): fencing - a request through a fid whose path node is marked deleted is refused (EINVAL; "
              "ENOENT for a walk to a child) with no backend call in the handler (8 single-fid request kinds, child walks, Tlink's guard); an "
              "xattr fid cannot be cloned; an unlinked name has no path node and a later binding gets a fresh non-deleted node; one callback of "
              "renameChildTo tells the new parent File and name. C08_fenced_subtree (markChildDeleted marks EVERY path node at or below the victim) "
              "is an induction over the node graph of an arbitrary state. NOT proved: tree_closed for arbitrary backends (deleted downward "
              "closed; needs B2). (4) The atomicity of a binding request with respect to renames (renameMu) is an ASSUMPTION of the sequential "
              "model: C08_clone_split (the clone as two segments run back to back = the model's request, every backend and state) and "
              "C08_clone_overtaken_refuted (PathFS: a rename between the segments leaves the new fid on the old path, ENOENT) make it explicit; "
              "C08_clone_is_one_critical_section reads off the generated skeleton that the code runs both segments inside one safelyRead. "
              "Every run replays generated create/mkdir/walk/clone/rename/renameat/unlinkat/remove/clunk histories (depth <= 4, "
              "many fids on equal and nested paths, renames over existing targets, subtree moves, refused renames, re-created names) on the real "
              "server against the Go twin of PathFS and evaluates the stated clauses on the observed behaviour, independently of the model.")
LEVEL_NOTE = ("Sequential model; for (2) the backend is PathFS (assumption B3) and the server its only writer (B4). TESTED on the real code on "
              "every run (Cases.property_holds on the observation only): GetAttr through every bound fid after each tree change returns the inode "
              "the fid was bound to (the harness's own bookkeeping, not the Coq model); a request through a fenced fid is answered EINVAL/ENOENT "
              "and reaches no backend call; within a request a File is told its new name after its parent File; the dumped childRefs and "
              "childRefNames agree; no File used after Close; gated scenarios: unlink vs a parked walk; a rename of the entry / of an ancestor "
              "(same or other directory) issued while a clone, a walk to a child or a Tlcreate below it is parked inside its backend call - "
              "afterwards GetAttr through the new fid, the origin and both directory fids must reach their objects. A history on which implementation and model "
              "disagree (replies, per-request call log, path-tree dump) is reported as a VIOLATION with that history as replay. The harness reads "
              "unexported fields (pathNode.childRefs/childRefNames/childNodes/deleted, fidRef.file, server.pathTree): renaming one breaks its "
              "compilation and is reported as a violation. STATIC TIE (C08_code_skeleton, C08_notify_parents_first_code, "
              "C08_clone_is_one_critical_section): equality of the generated event skeletons with a table reviewed against Refs/Model.v (not a "
              "semantics of Go; see C05). The rest of the model is tied to the Go code by the differential only.")
DESIGN_REF = "6/C08"
ASSUMPTIONS = [
    "B3: the backend is PathFS (path-addressed, Renamed rewrites the path from parent.path/name); B4: the server is the only writer of the tree",
    "requests of all connections are processed one at a time (sequential model; for binding requests vs renames this is renameMu: C08_clone_split / C08_clone_overtaken_refuted, gated scenario rename-vs-bind); Go map iteration order only permutes Renamed/Close runs",
    "B2: a successful RenameAt never moves a directory into itself or a descendant (else parent chains become cyclic and Files leak); enforced by the harness backend, hypothesis (no_cycle flag / fuel) of the disconnect theorem",
    "names are compared by equality only (name ids in the model; checkSafeName is C09)",
]
TRUSTED_BASE = [
    "Coq 8.16.1 kernel, vm_compute (cases evaluation); no native_compute",
    "axioms: none (Print Assumptions: closed under the global context for every property theorem)",
    "hand-written model Refs/Model.v + Refs/PathFS.v, tied by harness/p9/c05_test.go, vhfs_*_test.go + Refs/Cases.v",
    "the harness backend vhfs (Go twin of PathFS.v), its call log and failure injection; lib/refs_cases.py (observations -> Coq terms)",
    "tools/go2coq/refsgen.go (syntactic event-skeleton extraction, no type checker) and the hand review of Refs/GenTie.v's table against Refs/Model.v",
]
HARNESS = ["vh_common_test.go", "vhfs_backend_test.go", "vhfs_driver_test.go", "vhfs_gen_test.go", "vhfs_gated_test.go", "c08_test.go"]
TEST = "^TestVerifC08$"


def summarize(obs):
    kinds = {}
    nsteps = 0
    ncalls = 0
    for o in obs:
        for s in o["steps"]:
            kinds[s["op"]["k"]] = kinds.get(s["op"]["k"], 0) + 1
            nsteps += 1
            ncalls += len(s["log"])
    return kinds, nsteps, ncalls


def run(ctx):
    rc, out, obs = ctx.gotest("p9", TEST, HARNESS, timeout=1500 if ctx.thorough else 600)
    if rc != 0 or not obs:
        # the subject may have crashed the test binary: what was observed until then is still evaluated
        ctx.harness_broken("harness %s failed (rc=%d)" % (TEST, rc), out)
        ctx.crashed = True
        if not obs:
            return
    lost = [o for o in obs if o.get("broken")]
    if lost:
        # the server stopped answering in the middle of a history (crash / hang of the subject): reported, the rest is evaluated
        ctx.harness_broken("harness lost the connection to the server: %s" % lost[0]["broken"], str(lost[0]["steps"][-3:]))
        ctx.crashed = True
        obs = [o for o in obs if not o.get("broken")]
        if not obs:
            return
    M, P = refs_cases.evaluate(ctx, ID, obs)
    for idx in P:
        o = obs[idx]
        ctx.violation("%s:lifecycle" % ID, "observed behaviour violates %s (File closed twice / used after Close / never closed / path incoherent / "
                      "fenced request reached the backend / Handle did not return)" % ID, slim(o))
    nm = 0
    for idx in M:
        o = obs[idx]
        nm += 1
        d = refs_cases.diagnose(ctx, ID, o) if nm <= 2 else None
        if nm <= 5:
            ctx.note("model/implementation disagree on history #%d (first difference: %s)" % (idx, d))
        ctx.broken.append({"kind": "correspondence", "what": "Refs/Model.v disagrees with the implementation on a history", "first_difference": d, "case": slim(o)})
        if nm <= 2:
            # the history is a concrete failing input of the correspondence obligation: reported with a replay, not as "no failing input found"
            ctx.violation("%s:model" % ID, "the implementation leaves the model the %s theorems are about on this history (first difference: %s)" % (ID, d), slim(o))
    kinds, nsteps, ncalls = summarize(obs)
    distinct = refs_cases.count_distinct_nontrivial(obs, ID)
    ctx.coverage.update({
        "evaluations": len(obs),
        "distinct_nontrivial": distinct,
        "rule": RULE,
        "correspondence": {"cases": len(obs), "mismatches": nm, "requests": nsteps, "backend_calls": ncalls, "by_request_kind": kinds,
                           "with_injected_failure": sum(1 for o in obs if o["inject"]), "complete_disconnect": sum(1 for o in obs if o.get("complete")), "gated_scenarios": sum(1 for o in obs if o.get("gated"))},
        "samples": refs_cases.pick_samples(obs, ID, slim),
    })


RULE = ("fixed corpus (ancestor renames, Trename, subtree unlink + fenced requests + re-creation, rename over existing directory/file, refused "
        "renames, two connections), gated scenarios (unlink vs parked walk; rename of the entry / an ancestor vs a parked clone / walk / Tlcreate, 16 combinations per tier-quick run, 32 thorough) and random histories over 2-3 names x depth <= 4 with 2 connections x 8 fids, both walk flavours, GetAttr "
        "probe through every bound fid after each tree change, occasional injected backend failure; distinct_nontrivial = distinct (steps, injection) records with >= 3 requests of which at least one rename/unlink succeeded, plus the gated scenarios; samples = the injected-failure history with the most backend calls, the complete history with the most successful rename/unlink requests, one gated scenario")


def slim(o):
    return {k: o[k] for k in ("kind", "wga", "inject", "steps", "nhandles", "complete", "returned", "gdelta", "dump_at", "dump", "log", "probes") if k in o}


def search(ctx):
    if ctx.thorough or getattr(ctx, "crashed", False):
        return  # a crashing / hanging subject is not made to crash again at the thorough budget
    ctx.tier = "thorough"
    ctx.thorough = True
    run(ctx)
