"""C01 — wire format conformance and lossless round trip."""
import os
import vlib

ID = "C01"
PROPERTIES_FILE = "Properties/C01.v"
COQ_TARGETS = ["Properties/C01.vo", "Codec/CodecCases.vo", "Codec/GenTables.vo"]
LEVEL = "proof"
TECHNIQUE = ("Coq: generic codec universe with round-trip theorem by induction on layouts (unbounded values/lengths), frame-level recv(send) theorem, "
             "hand-written 9P2000.L table; go2coq CodecGen reads every encode/decode body and the obligation 'generated program = protocol layout' "
             "is re-checked on every run; differential cases on the real send/recv evaluated with vm_compute")
LEVEL_TEXT = ("Theorems over all layouts of the universe and all well-formed values: dec(enc v ++ rest) = (norm v, rest); recv(send m) = norm m; "
              "norm differs from the identity only at permission fields (bits above 0o7777) and Rreaddir (suffix of entries not fitting Count). "
              "Obligation over generated tables: for all 256 type bytes, the encode program and the decode program read off the Go methods equal the "
              "hand-written 9P2000.L layout (after the Go-field -> protocol-field binding), FixedSize()/Payload() agree, primitives of buffer.go match. "
              "Every run also encodes/decodes generated values of all 65 types with the real code and compares bytes with the table's encoder.")
LEVEL_NOTE = ("send/recv of transport.go (7-byte header, vectors, FixedSize split) are a HAND model (Codec/Frame.v): C01_frame is a theorem about that model; it is tied to the Go "
              "send/recv only differentially (every case goes through the real send and recv; raw frames incl. short bodies must be rejected exactly as the model says, as part of the "
              "property predicate) plus the constants, and since round 5 by C01_frame_shape: go2coq reads send and recv BY ROLE (header writers/readers in order with widths, vector order, "
              "summands of the total, the size checks before lookup, the FixedSize split) and the result must equal a hand-written table of what Frame.v stands for, so an edit of "
              "transport.go re-opens an obligation; that Frame.v computes what the table says is by inspection, not a theorem. The encode/decode METHODS are read by the translator (generated-table obligation). 'Every request the client can issue / every "
              "reply the server can produce' is tested (one live session per version), not proved. Trusted: Coq kernel + vm_compute; go2coq CodecGen (its reading of the method bodies is itself cross-checked by the differential cases: "
              "the generated tables must reproduce the real bytes); Spec9P.v is a hand transcription of the protocol documents; "
              "Go semantics of append/slicing/binary.LittleEndian in buffer.go (bodies matched textually, modelled by le_enc/le_dec/take).")
DESIGN_REF = "6/C01"
ASSUMPTIONS = [
    "values are well-formed (the property's own quantifier): strings and lists < 65536, fid < 2^32, frame <= msize <= 4 MiB",
    "binary.LittleEndian.PutUintN/UintN, append and slice expressions behave as modelled (covered by the differential cases)",
]
TRUSTED_BASE = [
    "Coq 8.16.1 kernel, vm_compute (generated-table checks and cases evaluation); no native_compute",
    "axioms: none (Print Assumptions: closed under the global context for every property theorem)",
    "go2coq CodecGen + ConstGen (translator from Go syntax; refusals are reported, output cross-checked against real bytes)",
    "Codec/Spec9P.v: hand-written protocol table (9P2000 man pages, 9P2000.L description / Linux 9p.h, gVisor for .Google extensions)",
    "harness/p9/c01_codec_test.go (reflection fill/dump of message structs)",
]

SHARD = 150
CHUNK = 24


def bl(b):
    """Coq `list byte` of constructor names."""
    return "[" + ";".join("x%02x" % c for c in b) + "]"


def le(n):
    out = []
    while n:
        out.append(n & 255)
        n >>= 8
    return bl(out)


def segs(b):
    """bytes -> Coq `list cseg`: arithmetic runs compressed, the rest in short literal chunks
    (long list literals parse super-linearly)."""
    out = []
    start = 0
    i = 0
    n = len(b)

    def lit(x):
        for k in range(0, len(x), CHUNK):
            out.append("CL " + bl(x[k:k + CHUNK]))

    while i < n:
        if i + 32 <= n:
            a = b[i]
            d = (b[i + 1] - b[i]) % 256
            j = i + 1
            while j + 1 < n and (b[j + 1] - b[j]) % 256 == d:
                j += 1
            ln = j - i + 1
            if ln >= 32:
                lit(b[start:i])
                out.append("CR %s x%02x x%02x" % (le(ln), a, d))
                i = j + 1
                start = i
                continue
        i += 1
    lit(b[start:n])
    return "[" + ";".join(out) + "]"


def cval(v):
    if isinstance(v, bool):
        return "CT" if v else "CF"
    if isinstance(v, int):
        return "CI " + le(v)
    if "s" in v:
        return "CS " + segs(bytes.fromhex(v["s"]))
    if "b" in v:
        return "CB " + segs(bytes.fromhex(v["b"]))
    if "l" in v:
        return "CLs [" + ";".join("[" + ";".join(cval(x[1]) for x in row) + "]" for row in (v["l"] or [])) + "]"
    raise ValueError(v)


def cvals(d):
    return "[" + ";".join(cval(v) for _, v in (d or [])) + "]"


def paths(d):
    """field paths of a dump in the shape of the schema"""
    out = []
    for p, v in (d or []):
        if isinstance(v, dict) and "l" in v:
            out.append([p, None])
        else:
            out.append(p)
    return out


def res(r, sent=None, tag=None, typ=None):
    k = r["r"]
    if k == "ok":
        if sent is not None and r["got"] == sent and r["tag"] == tag and r["typ"] == typ:
            return "XSame"
        return "(XOk %s x%02x %s)" % (le(r["tag"]), r["typ"], cvals(r["got"]))
    if k == "conn":
        return "XConn"
    if k == "unknown":
        return "(XUnknown %s)" % le(r["tag"])
    if k == "invalid":
        return "XInvalid"
    raise ValueError(k)


def to_case(o):
    if o["k"] == "send":
        return "KSend x%02x %s %s %s %s %s" % (o["typ"], le(o["tag"]), le(o["msize"]), cvals(o["sent"]), segs(bytes.fromhex(o["wire"])),
                                               res(o["res"], o["sent"], o["tag"], o["typ"]))
    if o["k"] == "conn":
        return "KConn %s %s %s" % (le(o["msize"]), segs(bytes.fromhex(o["wire"])), res(o["res"]))
    return "KRaw %s %s %s" % (le(o["msize"]), segs(bytes.fromhex(o["wire"])), res(o["res"]))


def schema_text(schema):
    """schema: {typ: [path | {"p": path, "cols": [...]}]} as emitted by the harness (reflection on the Go struct types)"""
    ents = []
    for t in sorted(schema, key=int):
        fs = []
        for f in schema[t]:
            if isinstance(f, str):
                fs.append('SLeaf "%s"' % f)
            else:
                fs.append('SRows "%s" [%s]' % (f["p"], "; ".join('"%s"' % c for c in f["cols"])))
        ents.append("(%d, [%s])" % (int(t), "; ".join(fs)))
    return ("From Coq Require Import NArith List String.\nFrom P9V Require Import Codec.Dump.\nImport ListNotations.\n"
            "Open Scope string_scope.\nOpen Scope N_scope.\nDefinition sc : schema := [\n  %s\n].\n" % ";\n  ".join(ents))


def schema_ok(schema, o):
    """dump paths of an observation agree with the schema (cheap sanity check of the harness itself)"""
    def chk(t, d):
        want = schema.get(str(t))
        if want is None:
            return False
        have = paths(d)
        if len(have) != len(want):
            return False
        for h, w in zip(have, want):
            if isinstance(w, str):
                if h != w:
                    return False
            elif not isinstance(h, list) or h[0] != w["p"]:
                return False
        return True
    if o["k"] == "send" and not chk(o["typ"], o["sent"]):
        return False
    if o["res"]["r"] == "ok" and not chk(o["res"]["typ"], o["res"]["got"]):
        return False
    return True


def fresh(vo, *srcs):
    p = os.path.join(vlib.COQ, vo)
    if not os.path.exists(p):
        return False
    t = os.path.getmtime(p)
    return all(os.path.exists(os.path.join(vlib.COQ, s)) and os.path.getmtime(os.path.join(vlib.COQ, s)) <= t for s in srcs)


COQ_W = ["-w", "-notation-overridden,-deprecated-syntactic-definition"]


def coq_batch(ctx, name, text, prints, timeout=900):
    """Evaluate cases/<name>.v with coqtop -batch (no .vo is written: saving large constants is slow)."""
    d = os.path.join(vlib.COQ, "cases")
    os.makedirs(d, exist_ok=True)
    with open(os.path.join(d, name + ".v"), "w") as f:
        f.write(text)
    import time
    t = time.time()
    cmd = "ulimit -s 4000000 2>/dev/null || ulimit -s unlimited 2>/dev/null; exec coqtop -q -batch -Q . %s %s -l %s" % (
        vlib.LOGICAL, " ".join(COQ_W), os.path.join("cases", name + ".v"))
    rc, out = vlib.sh(["bash", "-c", cmd], cwd=vlib.COQ, timeout=timeout)
    ctx.log.append("[coqtop cases/%s.v] rc=%d %.1fs\n%s" % (name, rc, time.time() - t, out[-3000:] if rc else out[-600:]))
    if rc != 0 or "Error" in out:
        ctx.harness_broken("cases/%s.v does not evaluate (model and harness out of step)" % name, out)
        return None
    r = {}
    for p in prints:
        r[p] = vlib.parse_print(out, p)
        if r[p] is None:
            ctx.harness_broken("cases/%s.v printed no value for %s" % (name, p), out)
            return None
    return r


def split_triple(ctx, s):
    """printed `(B, P, M)` of three nat lists -> dict"""
    s = s.strip()
    if not (s.startswith("(") and s.endswith(")")):
        ctx.harness_broken("cases file printed an unexpected result: %s" % s[:200], s)
        return None
    parts, depth, cur = [], 0, ""
    for ch in s[1:-1]:
        if ch in "([":
            depth += 1
        elif ch in ")]":
            depth -= 1
        if ch == "," and depth == 0:
            parts.append(cur.strip())
            cur = ""
        else:
            cur += ch
    parts.append(cur.strip())
    if len(parts) != 3:
        ctx.harness_broken("cases file printed an unexpected result: %s" % s[:200], s)
        return None
    return {"B": parts[0], "P": parts[1], "M": parts[2]}


def compile_schema(ctx, base, schema):
    d = os.path.join(vlib.COQ, "cases")
    os.makedirs(d, exist_ok=True)
    name = base + "_schema"
    with open(os.path.join(d, name + ".v"), "w") as f:
        f.write(schema_text(schema))
    rc, out = vlib.sh(["coqc", "-q", "-Q", ".", vlib.LOGICAL] + COQ_W + [os.path.join("cases", name + ".v")], cwd=vlib.COQ, timeout=600)
    ctx.log.append("[coqc cases/%s.v] rc=%d\n%s" % (name, rc, out[-2000:]))
    if rc != 0:
        ctx.harness_broken("cases/%s.v (field paths of the Go structs) does not compile" % name, out)
        return None
    return name


def cleanup_schema(name):
    d = os.path.join(vlib.COQ, "cases")
    for ext in (".vo", ".vok", ".vos", ".glob"):
        try:
            os.unlink(os.path.join(d, name + ext))
        except OSError:
            pass
    try:
        os.unlink(os.path.join(d, "." + name + ".aux"))
    except OSError:
        pass


HEADER = ("From Coq Require Import NArith List String.\nRequire Import Coq.Init.Byte.\n"
          "From P9V Require Import Codec.Layout Codec.Frame Codec.Dump Codec.CodecCases%s cases.%s.\nImport ListNotations.\n")


def evaluate(ctx, obs, schema, base="C01_cases"):
    """Returns (indices failing the property, indices where the generated model disagrees, model_available)."""
    from concurrent.futures import ThreadPoolExecutor
    have_gen = fresh("Codec/GenTables.vo", "gen/CodecGen.v", "Codec/GenTables.v", "Codec/CodecCases.v")
    if not fresh("Codec/CodecCases.vo", "Codec/CodecCases.v", "Codec/Spec9P.v", "Codec/Dump.v"):
        ctx.harness_broken("Codec/CodecCases.vo is not built: cases cannot be evaluated", "")
        return [], [], False
    sname = compile_schema(ctx, base, schema)
    if sname is None:
        return [], [], have_gen
    texts = []
    nsh = max(1, (len(obs) + SHARD - 1) // SHARD)   # shard s holds obs[s::nsh]: heavy cases (long strings) come in runs, interleaving spreads them
    for i in range(nsh):
        cases = ";\n  ".join("(%s)" % to_case(o) for o in obs[i::nsh])
        t = HEADER % (" Codec.GenTables" if have_gen else "", sname)
        t += "Definition ccases : list ccase := [\n  %s\n].\n" % cases
        # one evaluation: the conversion of the compact cases is shared by the three lists
        t += ("Definition R := Eval vm_compute in let cases := map (to_case sc) ccases in\n"
              "  (bad_cases cases, property_failures cases, %s).\nPrint R.\n" % ("mismatches cases" if have_gen else "@nil nat"))
        texts.append(t)
    prints = ["R"]
    with ThreadPoolExecutor(max_workers=12) as ex:
        futs = [ex.submit(coq_batch, ctx, "%s_%03d" % (base, i), t, prints) for i, t in enumerate(texts)]
        results = [f.result() for f in futs]
    cleanup_schema(sname)
    pf, mm = [], []
    for si, r in enumerate(results):
        if r is None:
            continue
        r = split_triple(ctx, r["R"])
        if r is None:
            continue
        bad = vlib.coq_nat_list(r["B"])
        if bad:
            ctx.harness_broken("%d observations do not fit the schema of field paths (first: case %d)" % (len(bad), si + nsh * bad[0]), "")
        pf += [si + nsh * i for i in vlib.coq_nat_list(r["P"]) if i not in bad]
        if have_gen:
            mm += [si + nsh * i for i in vlib.coq_nat_list(r["M"]) if i not in bad]
    pf.sort()
    mm.sort()
    return pf, mm, have_gen


def run(ctx):
    rc, out, obs = ctx.gotest("p9", "^TestVerifC01$", ["vh_common_test.go", "vhcl_common_test.go", "c01_codec_test.go", "c01_conn_test.go"], timeout=900)
    if rc != 0 or len(obs) < 2:
        ctx.harness_broken("harness TestVerifC01 failed (rc=%d)" % rc, out)
        return
    regobs = [o for o in obs if o["k"] == "registry"]
    for o in obs:
        if o["k"] == "conn-error":
            ctx.harness_broken("connection scenario (real Client against real Server) did not run: %s" % o.get("what"), str(o))
    obs = [o for o in obs if o["k"] in ("send", "raw", "conn")]
    bad = [o for o in obs if o["res"]["r"].startswith("other")]
    if bad:
        ctx.harness_broken("recv returned an error the harness cannot classify: %s" % bad[0]["res"]["r"], str(bad[0])[:500])
        obs = [o for o in obs if not o["res"]["r"].startswith("other")]
    if not regobs or "schema" not in regobs[0]:
        ctx.harness_broken("harness did not report the field paths of the message structs", out)
        return
    schema = regobs[0]["schema"]
    nbad = [o for o in obs if not schema_ok(schema, o)]
    if nbad:
        ctx.harness_broken("dump paths differ from the reflected schema (harness inconsistency)", str(nbad[0])[:600])
        obs = [o for o in obs if schema_ok(schema, o)]
    pf, mm, have_gen = evaluate(ctx, obs, schema)
    for i in pf:
        o = obs[i]
        key = "C01:%s:%s" % (o["k"], o.get("typ", o["wire"][8:10]))
        what = ("bytes written by send differ from the 9P2000.L layout of the sent values, or recv did not deliver norm(sent)"
                if o["k"] == "send" else "recv of a frame laid out per 9P2000.L did not deliver the field values it carries (norm applied)")
        if o["k"] == "conn":
            what = "a frame captured on a live Client/Server connection is not the 9P2000.L encoding of a message of its type (or recv does not deliver it)"
        elif str(o.get("profile", "")).startswith("conn-"):
            what = "a frame captured on a live Client/Server connection differs from the 9P2000.L encoding of the message that call / backend answer determines"
        ctx.violation(key, what, o if len(str(o)) < 20000 else {k: (v if len(str(v)) < 4000 else str(v)[:4000] + "...") for k, v in o.items()})
    nm = 0
    for i in mm:
        o = obs[i]
        nm += 1
        if nm <= 5:
            ctx.note("generated codec tables disagree with the implementation on: %s" % str({k: o[k] for k in o if k != "wire"})[:300])
        if nm <= 20:
            ctx.broken.append({"kind": "correspondence", "what": "CodecGen tables do not reproduce the real %s (type %s)" % (o["k"], o.get("typ", "?")),
                               "case": str(o)[:2000]})
    if not have_gen:
        ctx.broken.append({"kind": "correspondence", "what": "gen/CodecGen.v or Codec/GenTables.v did not build: model agreement not evaluated"})
    kinds = {}
    for o in obs:
        k = o["k"] + ":" + (o.get("profile") or o.get("what") or "")
        kinds[k] = kinds.get(k, 0) + 1
    results = {}
    for o in obs:
        results[o["res"]["r"]] = results.get(o["res"]["r"], 0) + 1
    types = sorted({o["typ"] for o in obs if o["k"] == "send"})
    # non-trivial: the body-level encoder/decoder actually ran on something: a sent message with at least one
    # non-zero/non-empty field (frame body not all zero), or received bytes on which decode ran (delivered or rejected
    # as invalid); header-only rejections (size, unknown type) and all-zero messages are counted as trivial
    def nontrivial(o):
        if o["k"] == "send":
            return any(c != "0" for c in o["wire"][14:])
        return o["res"]["r"] in ("ok", "invalid")
    distinct = len({o["wire"] + str(o["msize"]) for o in obs if nontrivial(o)})
    small = [o for o in obs if len(o["wire"]) < 200]

    def pick(pred):
        return next((o for o in small if pred(o)), None)
    samples = [
        {"role": "boundary: Rreaddir whose first two entries fill Count exactly (51)", "case": pick(lambda o: o.get("profile") == "exactfit" and o["tag"] == 51)},
        {"role": "typical: a random Twalk through real send and recv", "case": pick(lambda o: o["k"] == "send" and o["typ"] == 110 and o.get("profile") == "random")},
        {"role": "malformed: body one byte short of its type's fields, size field consistent", "case": pick(lambda o: o["k"] == "raw" and o.get("what") == "short-body")},
        {"role": "live connection: a frame written by the real Client", "case": pick(lambda o: str(o.get("profile", "")) == "conn-T")},
    ]
    ctx.coverage.update({
        "evaluations": len(obs),
        "distinct_nontrivial": distinct,
        "rule": "quick tier, per registered type: zero / max / 2 edge / 2 random values by reflection, max-then-zero into the recycled object, a 256-byte string "
                "(65535 bytes for 9 types, 255/32767/32768 too for Twalk/Tversion/Rreaddir), lists of 16 and 1000 elements, one 64 KiB payload, msize and msize-1; "
                "Rreaddir exact-fit corpus and prefix-fit corpus (an entry that does not fit followed by shorter ones that would, 13 counts x 2 orders); every ~16th..each frame byte overwritten, trailing bytes, short body, short stream, bad sizes, type bytes; "
                "a real Client/Server session at versions 0 and 7 (thorough: 40 random, all five string lengths for every type, 65535-element lists, 1 MiB payload, "
                "every byte of 3 frames). distinct_nontrivial = distinct (frame bytes, msize) among cases where a body-level encode/decode ran on non-zero content "
                "(sent body not all zero; received frame delivered or rejected as invalid)",
        "registered_types": (regobs[0]["types"] if regobs else types),
        "types_exercised": len(types),
        "correspondence": {"cases": len(obs), "mismatches": nm, "by_kind": kinds, "recv_results": results, "model_available": have_gen},
        "samples": [x for x in samples if x["case"] is not None],
    })


def search(ctx):
    """An obligation or the correspondence broke but no observed case failed.  The quick harness already aims at
    every type and every frame byte, so the search is one more quick-tier pass with another seed (other random
    values, other overwritten bytes) — well inside ctx.search_budget_s; never an escalation to the thorough tier."""
    if ctx.thorough or getattr(ctx, "search_budget_s", 150) < 60:
        return
    ctx.seed += 1
    run(ctx)
