"""C02 — decoder safety, bounded buffering, frame resynchronisation."""
import vlib
from vlib import coq_bool

ID = "C02"
PROPERTIES_FILE = "Properties/C02.v"
COQ_TARGETS = ["Properties/C02.vo", "Frame/FrameCases.vo"]
LEVEL = "proof"
TECHNIQUE = ("Coq theorems (all byte streams, all msize, all lookup functions, all body decoders) over a hand-written Gallina model of "
             "transport.go recv and the server receive loop; registry table generated from the source (FrameGen); model tied to the code by "
             "differential cases on the real recv (counting reader) and on Server.Handle sessions, evaluated with vm_compute")
LEVEL_TEXT = ("Theorems for every list of bytes: recv is total, consumes exactly the declared size of a complete acceptable frame (delivered or rejected), "
              "gives a connection error after exactly 7 bytes for size < 7 / > msize / > 4 MiB, never waits once the frame is complete, reads into buffers "
              "totalling at most max 7 (min msize 4MiB), delivers exactly the frame's own bytes, never delivers a strict prefix of a frame, and the receive loop "
              "over any concatenation of well-delimited frames (delivered or rejected in any mix) yields exactly one event per frame (one Rlerror per rejected frame) "
              "and stops at a refused size field; server level: one reply per frame under the predicted tag (unknown type: the frame's tag, body-level rejection: NOTAG). "
              "Instantiated with C01's layouts and decoder (Frame/Instantiate.v): the two models of recv agree on every stream, a delivered message is the decoding of exactly the "
              "frame's body, and every frame send writes is delivered with exactly the encoded field values (up to mnorm). Every run re-checks the proofs and compares the model with the real recv / Server.Handle.")
LEVEL_NOTE = ("Sessions: a tag used by a REJECTED frame may be reused at once (only repeats among accepted frames make a session unjudged); the frame following a renegotiation is judged by the msize of the last Rversion (CReneg: Tversion with a 65,000-digit version number keeps its handler busy while the next receiver starts; 120 sessions quick / 1500 thorough). Trusted: Coq kernel + vm_compute; the hand model Frame/Model.v (tied by the differential only); FrameGen.v (registry read from messages.go, also compared "
              "with the run-time registry); CodecGen (decode programs gm_dec, layouts) with codecA's semantics Codec/Reuse.v. Inside the decoders: C02_program_verdict proves, for all 65 registered types "
              "(table obligation DecodeTie.all_good, vm_compute), every body, every recycled-object state and every pool content, that the generated decode program run as recv runs it accepts exactly what the layout decoder "
              "accepts on exactly the body bytes; C02_recv_with_programs / C02_serve_with_programs transfer every theorem stated for decode_codec to the programs; the unsliced pooled buffer (C02-m3) is refuted in the model. "
              "C02_spec_is_source keeps Codec/GenCheck (protocol table = what go2coq reads from messages.go) in C02's cone, so a go2coq refusal of a decoder edit also fails C02. The differential's property predicate demands, "
              "for every observed complete frame, the verdict (deliver / reject and the reply tag) of the protocol table's decoder on those bytes -- not an oracle taken from the implementation. "
              "'Never panics': C02_recv_no_panic is a theorem about recv written with Go's partial operations (wrapping uint32 subtraction, data[:size] on a pooled slice of any length, make) with an explicit panic outcome -- unreachable; "
              "inside the decoders it still holds BY CONSTRUCTION (failed bounds check = None of the option monad; buffer.go primitives matched exactly by CodecGen): observed half = recover() around every recv call plus the "
              "fuzz-style loop (quick: seconds; thorough: ~150 s recv + ~50 s live Server.Handle), a panic/hang/process crash being a violation with the stream as replay. "
              "The recvmsg path below recv: VecGen reads the iovec-advance statements of readFromBuffersLinux, run against consume_iov (bounded exhaustive, semantic; C02_vec_advance_agrees_bounded). "
              "Allocation IS observed: runtime TotalAlloc delta per recv call (min of 3) on hostile counts, valid frames and refused size fields, required <= 64 x accepted frame size + 64 KiB "
              "(64 KiB for a refused header); real peak RSS is not measured. The harness is white box (recv, msgDotLRegistry, message structs): renaming those breaks its compilation = reported as a violation.")
DESIGN_REF = "6/C02"
ASSUMPTIONS = [
    "io.ReadAtLeast, io.Copy(ioutil.Discard, io.LimitReader) and vecnet.Buffers.ReadFrom obtain exactly the requested bytes or fail (C17 proves this of the vecnet model for every segmentation)",
    "frame-layer theorems hold for every decode verdict function (parameter decode_ok); instantiated with the layout decoder (Instantiate.v) and with the generated decode programs (DecodeTie.v), proved equal",
    "sessions: distinct tags in flight and no Tversion inside the stream (otherwise the case is skipped: reuse of an active tag is legitimately unanswered)",
]
TRUSTED_BASE = [
    "Coq 8.16.1 kernel, vm_compute (cases evaluation); no native_compute",
    "axioms: none (Print Assumptions: closed under the global context for every property theorem)",
    "go2coq ConstGen (headerLength, maximumLength, noTag, msg numbers), FrameGen (registry: type -> plain / payloader FixedSize), CodecGen (decode programs; semantics Codec/Reuse.v), VecGen (iovec-advance statements; interpreter Frame/Imp.v)",
    "hand-written model Frame/Model.v, tied by harness/p9/c02_recv_test.go + Frame/FrameCases.v",
]

SHARD = 110


def nlist(a):
    return "[" + "; ".join(str(int(x)) for x in (a or [])) + "]"


def blist(a):
    """byte list: hex string literal when long (Coq parses long list notations slowly)"""
    a = a or []
    if len(a) <= 6 or any(x > 255 for x in a):
        return nlist(a)
    hexs = "".join("%02x" % x for x in a)
    return "(" + " ++ ".join('hx "%s"' % hexs[i:i + 4000] for i in range(0, len(hexs), 4000)) + ")"


def script(sc):
    return "[" + "; ".join("(%d, %s)" % (s["k"], coq_bool(s["eof"])) for s in (sc or [])) + "]"


KIND = {"conn": 0, "reject": 1, "deliver": 2, "panic": 3}


def event(e):
    return "OEv %d %d %d %s %s %d" % (KIND[e["kind"]], e["tag"], e["typ"], coq_bool(e.get("haspay", False)), blist(e.get("payload")), e["consumed"])


def events(evs):
    return "[" + "; ".join(event(e) for e in (evs or [])) + "]"


def oracle(o):
    return "[" + "; ".join("(%d, %d, %d, %s)" % (x["typ"], x["off"], x["len"], coq_bool(x["ok"])) for x in (o.get("oracle") or [])) + "]"


def regent(e):
    return "(%d, %s)" % (e["typ"], "Some %d" % e["fixed"] if e["kind"] == 2 else "None")


def to_case(o):
    k = o["kind"]
    if k == "registry":
        ents = "[" + "; ".join(regent(e) for e in o["entries"] if not e.get("testonly")) + "]"
        return "CRegistry %s %d %d %d" % (ents, o["headerLength"], o["maximumLength"], o["noTag"])
    if k == "loop":
        has_base = "base" in o and o["base"] is not None
        return "CLoop %d %d %d%%nat %s %s %s %s %s %s %s" % (
            o.get("mode", 0), o["msize"], o["max"], blist(o["stream"]), script(o.get("script")), oracle(o), events(o["events"]),
            nlist(o.get("reads")), coq_bool(has_base), events(o.get("base") if has_base else []))
    if k == "big":
        return "CBig %d %d %d %d %d %d" % (o["msize"], o["size"], o["avail"], KIND[o["ev"]], o["consumed"], o["maxread"])
    if k == "session":
        reps = "[" + "; ".join("(%d, %d, %d)" % (r["typ"], r["tag"], r.get("errno", 0)) for r in (o.get("replies") or [])) + "]"
        return "CSession %d %s %s %s %s %s %s" % (o["msize"], blist(o["stream"]), oracle(o), reps, coq_bool(o["hang"]), coq_bool(o["returned"]), coq_bool(o["verok"]))
    if k == "vec":
        conts = "[" + "; ".join(blist(c) for c in (o.get("contents") or [])) + "]"
        return "CVec %d %s %s %s %d %d %s" % (o["mode"], nlist(o["bufs"]), blist(o["stream"]), script(o.get("script")), o["n"], o["err"], conts)
    if k == "client":
        pend = "[" + "; ".join("(%d, %d)" % (x["tag"], x["typ"]) for x in (o.get("pending") or [])) + "]"
        return "CClient %d %d%%nat %s %s %s" % (o["msize"], o["max"], blist(o["stream"]), pend, events(o["events"]))
    if k == "alloc":
        return "CAlloc %d %s %d" % (o["msize"], blist(o["stream"]), o["alloc"])
    if k == "reneg":
        return "CReneg %d %d %s %s" % (o["announced"], o["size"], coq_bool(o["answered"]), coq_bool(o["returned"] and o["verok"]))
    if k == "fuzz":
        return "CFlag %s" % coq_bool(o.get("failures", 0) == 0)
    if k == "fuzzfail":
        return "CFlag false"
    if k == "flag":
        return "CFlag %s" % coq_bool(o.get("ok", False))
    if k == "bigsock":
        return "CFlag %s" % coq_bool(o["same"])
    raise ValueError(k)


HEADER = ("From Coq Require Import NArith List Bool String.\nFrom P9V Require Import Frame.Model Frame.Reader Frame.FrameCases.\n"
          "Import ListNotations.\nOpen Scope string_scope.\nOpen Scope N_scope.\n")


def evaluate(ctx, pid, obs, what):
    """Shared with C17: shards -> (number of mismatches); records violations / broken correspondences."""
    extra = "[" + "; ".join(regent(e) for o in obs if o["kind"] == "registry" for e in o["entries"] if e.get("testonly")) + "]"
    texts = []
    # balance shards by size (streams differ a lot in length)
    order = list(range(len(obs)))
    nsh = max(1, (len(order) + SHARD - 1) // SHARD)
    shards = [order[k::nsh] for k in range(nsh)]    # round robin: long streams are spread over the shards
    for sh in shards:
        cases = ";\n  ".join("(%s)" % to_case(obs[i]) for i in sh)
        texts.append(HEADER + "Definition cases : list fcase := [\n  %s\n].\n"
                     "Definition extra : list (N * option N) := %s.\n"
                     "Definition M := Eval vm_compute in mismatches extra cases.\nPrint M.\n"
                     "Definition P := Eval vm_compute in property_failures extra cases.\nPrint P.\n" % (cases, extra))
    res = ctx.coq_eval_shards(pid + "_cases", texts, ["M", "P"], workers=12)
    nm = 0
    for si, r in enumerate(res):
        if r is None:
            continue
        for idx in vlib.coq_nat_list(r["P"]):
            o = obs[shards[si][idx]]
            ctx.violation("%s:%s:%s" % (pid, o["kind"], o.get("what", o.get("path", ""))),
                          "observed behaviour violates %s (%s %s)" % (pid, o["kind"], o.get("what", "")), o)
        for idx in vlib.coq_nat_list(r["M"]):
            o = obs[shards[si][idx]]
            nm += 1
            if nm <= 5:
                ctx.note("model/implementation disagree on: %s" % str(o)[:600])
            ctx.broken.append({"kind": "correspondence", "what": "%s disagrees with the implementation (%s %s)" % (what, o["kind"], o.get("what", "")), "case": o})
    return nm


def behaviour_class(o):
    """What counts as a distinct non-trivial evaluation: the behaviour exercised, not the bytes.
    loop: (what, type byte of the first frame, size-field relation to msize/4MiB/length, sequence of outcome kinds
    with the tag class of rejections, segmented or not); session: (path, sorted reply (type, NOTAG?) list);
    alloc: (what, type byte, log2 bucket of the allocation); vec: (mode, number of buffers, result, stream vs total)."""
    k = o["kind"]
    if k == "loop":
        st = o.get("stream") or []
        typ = st[4] if len(st) > 4 else -1
        rel = "short"
        if len(st) >= 4:
            size = st[0] | st[1] << 8 | st[2] << 16 | st[3] << 24
            ms = o["msize"]
            rel = ("lt7" if size < 7 else "gt4M" if size > 4194304 else "gtms" if size > ms else "eqms" if size == ms else "ok") + \
                  ("/trunc" if size > len(st) else "/exact" if size == len(st) else "/more")
        evs = tuple((e["kind"], "notag" if e["kind"] == "reject" and e["tag"] == 65535 else "") for e in (o.get("events") or []))
        return (k, o.get("what"), o.get("mode", 0), typ, rel, evs, bool(o.get("script")))
    if k == "session":
        return (k, o["path"], tuple(sorted((r["typ"], r["tag"] == 65535, r.get("errno", 0)) for r in (o.get("replies") or []))), o["hang"])
    if k == "alloc":
        st = o["stream"]
        return (k, o.get("what"), st[4] if len(st) > 4 else -1, int(o["alloc"]).bit_length())
    if k == "vec":
        tot = sum(o["bufs"])
        return (k, o["mode"], len(o["bufs"]), o["err"], "short" if len(o["stream"]) < tot else "exact" if len(o["stream"]) == tot else "more",
                bool(o.get("script")), 0 in o["bufs"])
    if k == "big":
        return (k, o["ev"], o["size"] > o["msize"], o["size"] > 4194304, o["avail"] >= o["size"])
    return (k, o.get("what"))


def pick_samples(obs):
    """Representative cases: one per interesting behaviour, not the first records."""
    want = [
        ("resynchronisation: rejected frame between served ones",
         lambda o: o["kind"] == "loop" and len([e for e in o.get("events") or [] if e["kind"] == "reject"]) >= 1
         and len([e for e in o.get("events") or [] if e["kind"] == "deliver"]) >= 2),
        ("inconsistent count rejected", lambda o: o.get("what") == "badcount" and (o.get("events") or [{}])[0].get("kind") == "reject"),
        ("refused size field", lambda o: o.get("what") == "sizefield" and (o.get("events") or [{}])[0].get("kind") == "conn" and (o.get("events") or [{}])[0].get("consumed") == 7),
        ("hostile count: allocation", lambda o: o["kind"] == "alloc" and o.get("what") == "hostile"),
        ("segmented stream", lambda o: o["kind"] == "loop" and o.get("script") and len(o.get("events") or []) >= 3),
        ("socket, gated partial fill", lambda o: o.get("what") == "socket-gated"),
        ("session with NOTAG Rlerror", lambda o: o["kind"] == "session" and any(r["tag"] == 65535 for r in o.get("replies") or [])),
        ("vecnet buffers", lambda o: o["kind"] == "vec" and len(o["bufs"]) >= 2 and o.get("script")),
        ("fuzz loop", lambda o: o["kind"] == "fuzz"),
    ]
    out = []
    for label, pred in want:
        for o in obs:
            try:
                if pred(o):
                    out.append({"why": label, "case": dict((k, (v if not isinstance(v, list) or len(v) < 60 else v[:60] + ["..."])) for k, v in o.items() if k != "oracle")})
                    break
            except (KeyError, IndexError, TypeError):
                continue
    return out


def summarise(ctx, obs, nm, rule):
    kinds = {}
    evk = {}
    for o in obs:
        key = o["kind"] + (":" + o["what"] if o.get("what") else "")
        kinds[key] = kinds.get(key, 0) + 1
        for e in o.get("events") or []:
            evk[e["kind"]] = evk.get(e["kind"], 0) + 1
    classes = {behaviour_class(o) for o in obs}
    ctx.coverage.update({
        "evaluations": len(obs),
        "distinct_nontrivial": len(classes),
        "distinct_rule": behaviour_class.__doc__,
        "distinct_records": len({str(sorted((k, str(v)) for k, v in o.items() if k != "id")) for o in obs}),
        "rule": rule,
        "correspondence": {"cases": len(obs), "mismatches": nm, "by_kind": kinds, "recv_outcomes": evk,
                           "fuzz": [dict((k, v) for k, v in o.items() if k != "id") for o in obs if o["kind"] == "fuzz"]},
        "samples": pick_samples(obs),
    })


def run(ctx):
    rc, out, obs = ctx.gotest("p9", "^TestVerifC02$", ["vh_common_test.go", "c02_reader_test.go", "c02_recv_test.go"], timeout=1200)
    import json, os
    inflight = os.path.join(ctx.rundir, "c02_inflight.json")
    if rc != 0 and os.path.exists(inflight):
        # the test binary died while this input was being served: a crash of the real code (server goroutines
        # are outside the harness's recover) -- the input is the replay
        try:
            inp = json.load(open(inflight))
        except ValueError:
            inp = {"what": "unreadable in-flight record"}
        ctx.violation("C02:crash:%s" % inp.get("what", ""), "the process crashed or hung while handling this stream (%s)" % inp.get("what", ""),
                      {"input": inp, "go_test_tail": out[-3000:]})
    if rc != 0 or not obs:
        # the harness no longer compiles / died without an in-flight record
        if not ctx.violations:
            ctx.harness_broken("harness TestVerifC02 failed (rc=%d): a panic or hang under arbitrary input, or the harness no longer compiles" % rc, out)
        if not obs:
            return
    nm = evaluate(ctx, "C02", obs, "Frame/Model.v")
    summarise(ctx, obs, nm,
              "one valid frame of every registered type + structured messages x msize around the frame length; size fields {0,6,7,8,msize-1,msize,msize+1,4MiB,4MiB+1,2^32-1}; "
              "truncation at every offset; bit flips / huge 16- and 32-bit fields / short and long bodies / random types and bodies, alone and inside sequences of good frames; "
              "random bytes; payloaders with a short fixed part; unknown types with bodies around the 8 KiB discard buffer; 1-4 MiB frames (numbers only); "
              "sessions against Server.Handle over unix socket pairs (recvmsg and generic path); distinct = distinct observation records")


def search(ctx):
    if ctx.thorough or all(b.get("kind") in ("obligation", "translator", "forbidden-vernacular") for b in ctx.broken):
        return  # a broken proof / refused table is not made more concrete by a longer harness run
    ctx.tier = "thorough"
    ctx.thorough = True
    run(ctx)
