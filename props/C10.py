"""C10 — client multiplexing: distinct tags/fids, replies reach their own caller, no hang."""
import vlib

ID = "C10"
PROPERTIES_FILE = "Properties/C10.v"
COQ_TARGETS = ["Properties/C10.vo", "Client/MuxCases.vo"]
LEVEL = "proof"
TECHNIQUE = ("Coq: inductive invariant over a small-step interleaving model of sendRecv/waitAndRecv/handleOne (all schedules, all transport events), "
             "allocator invariant over all disciplined Get/Put sequences, fid discipline over all event sequences; model tied to the code by go2coq "
             "(send-error path of sendRecv; pool.Get/Put TRANSLATED and proved equal to the allocator model, C10_source_pool_*) and by differential runs of the real pool and the real Client against a scripted fake server")
LEVEL_TEXT = ("Theorems for every reachable state of the interleaving model (any number of calls, any schedule, replies in any order, unknown tags, "
              "wrong types, receive errors, short frames, send failures): distinct tags/slots, one owner per pending slot, no blocked send on done, "
              "routing / no foreign data, fail-all, stuck-freedom, later calls fail on a dead connection; allocator and fid-freshness theorems for all operation sequences. Every run re-checks the proofs, "
              "regenerates ClientGen.sendrecv_withdraws from the source, enumerates all allocator sequences on the real pool, and drives the real Client "
              "with every reply permutation of small batches, random orders of up to 64 goroutines, every fault kind after every number of replies, "
              "injected send failures, two forced schedules (a reply arriving while its call's send fails; a reply arriving before send returns) and scripted "
              "binding requests (answered / refused / lost) against the fid allocator; each call must return (watchdog, confirmed 3x) with its own data or an error; a Go panic is an observation.")
LEVEL_NOTE = ("Trusted: Coq kernel + vm_compute; hand model Client/Mux.v (atomicity = one critical section / channel operation per step; sync.Pool modelled as "
              "'any slot no running call holds and that was not withdrawn'); Go channel/mutex semantics. The peer is arbitrary (frames with any tag at any time). "
              "Liveness is stuck-freedom of the model plus watchdog observation (scheduler and transport progress are outside). C10_later_fail assumes that a dead "
              "connection stays dead (every later send and receive fails).")
DESIGN_REF = "6/C10"
ASSUMPTIONS = [
    "sync.Mutex / channel operations are atomic and sequentially consistent; sync.Pool returns some object no running call holds",
    "C10_later_fail: a connection that failed by itself keeps failing (dead_forever); after an error reported by the client's own recv nothing is assumed (C10_later_fail_after_recv_error)",
    "C10_fid_fresh: the server binds a fid only by a successful binding request and unbinds it by a confirmed clunk/remove (C04); nothing is assumed about how requests fail",
]
TRUSTED_BASE = [
    "Coq 8.16.1 kernel, vm_compute (cases evaluation, refutation witnesses)",
    "axioms: none (Print Assumptions: closed under the global context)",
    "go2coq ClientGen (sendRecv: registers before send / withdraws / does not recycle a withdrawn response; handleOne re-check; waitAndRecv token hand-over read from the "
    "statement structure (paths through the token branch: waitandrecv_rechecks_done); releaseFID policy (classified, not text-compared); Get/Put sites; whole bodies as reviewed text)",
    "props/C10.py to_case (trace strings emitted by the harness are model actions: the claim that a forced schedule IS that trace rests on the harness's events), helpers vhReadFrame/vhFrame",
    "go2coq PoolGen (symbolic execution of pool.Get / pool.Put into Gallina over the Go slice; Client/PoolTie.v proves the result equal to Pool.pool_get / pool_put for every pool state and records the mutex bracket; Client/PoolPrims.v = hand models of index / re-slice / append)",
    "hand-written models Client/Pool.v, Client/Mux.v, Client/Fids.v, tied by harness/p9/c10_test.go + Client/MuxCases.v",
]

ITEM = {"reply": "SReply %d", "rlerror": "SReply %d", "unknown": "SUnknown", "wrong": "SWrong %d", "garbage": "SGarbage", "close": "SClose", "short": "SShort %d"}
OBS = {"ok": "OOk", "err": "OErr", "foreign": "OForeign", "hang": "OHang", "none": "OHang", "panic": "OPanic"}


FIDEV = {"ok": "FBind BOk", "refused": "FBind BRefused", "lost": "FBind (BLost true)", "lost-wrong": "FBind (BLost true)"}


def to_case(o):
    if o["kind"] == "trace":
        return "CTrace %d [%s] [%s]" % (o["n"], "; ".join(o["trace"]), "; ".join(OBS[x] for x in o["outcomes"]))
    if o["kind"] == "fids":
        evs, fids = [], []
        for e in o["events"]:
            if e["k"] in FIDEV:
                evs.append(FIDEV[e["k"]])
                fids.append("Some %d%%N" % e["fid"])
            else:
                evs.append("FClunk %d%%N %s" % (e["fid"], "true" if e["k"] == "clunk-ok" else "false"))
        return "CFids [%s] [%s]" % ("; ".join(evs), "; ".join(fids))
    if o["kind"] == "pool":
        ops = "; ".join(("PPut %s%%N" % op["v"]) if op["put"] else "PGet" for op in (o["ops"] or []))
        res = "; ".join("None" if r is None else "Some %s%%N" % r for r in (o["results"] or []))
        return "CPool %s%%N %s%%N [%s] [%s]" % (o["start"], o["limit"], ops, res)
    phases = []
    for ph in o["phases"]:
        calls = "; ".join("(%d, %s)" % (c["i"], "true" if c["fail"] else "false") for c in (ph["calls"] or []))
        script = "; ".join((ITEM[i["k"]] % i["i"]) if "%d" in ITEM[i["k"]] else ITEM[i["k"]] for i in (ph["script"] or []))
        phases.append("([%s], [%s])" % (calls, script))
    return "CBatch %d [%s] [%s]" % (o["n"], "; ".join(phases), "; ".join(OBS[x] for x in o["outcomes"]))


HEADER = ("From Coq Require Import NArith Arith List.\nFrom P9V Require Import Client.Pool Client.Fids Client.Mux Client.MuxCases.\nImport ListNotations.\nOpen Scope nat_scope.\n"
          "Definition cases : list c10case := [\n  %s\n].\n"
          "Definition M := Eval vm_compute in mismatches cases.\nPrint M.\n"
          "Definition P := Eval vm_compute in property_failures cases.\nPrint P.\n")


def run(ctx):
    rc, out, obs = ctx.gotest("p9", "^TestVerifC10$", ["vh_common_test.go", "vhcl_common_test.go", "c10_test.go"], timeout=1500)
    if rc != 0 or not obs:
        ctx.harness_broken("harness TestVerifC10 failed or hung (rc=%d)" % rc, out)
        if not obs:
            return
    shard = 45
    shards = [list(range(i, min(i + shard, len(obs)))) for i in range(0, len(obs), shard)]
    texts = [HEADER % ";\n  ".join("(%s)" % to_case(obs[i]) for i in sh) for sh in shards]
    res = ctx.coq_eval_shards("C10_cases", texts, ["M", "P"], workers=12)
    nm = 0
    kinds = {}
    for o in obs:
        kk = o["kind"] + ("/" + o["sub"] if "sub" in o else "")
        kinds[kk] = kinds.get(kk, 0) + 1
    for sh, r in zip(shards, res):
        if r is None:
            continue
        for idx in vlib.coq_nat_list(r["P"]):
            o = obs[sh[idx]]
            ctx.violation("C10:%s" % (o.get("sub") or o["kind"]), "observed behaviour violates C10 (%s): a call hung, got foreign data or lost its own reply, "
                          "or the allocator handed out a value twice / out of range" % (o.get("sub") or o["kind"]), o)
        for idx in vlib.coq_nat_list(r["M"]):
            o = obs[sh[idx]]
            nm += 1
            if nm <= 5:
                ctx.note("model/implementation disagree on: %s" % str(o)[:500])
            ctx.broken.append({"kind": "correspondence", "what": "Client/Pool.v or Client/Mux.v disagrees with the implementation (%s)" % (o.get("sub") or o["kind"]), "case": o})
    distinct = len({str(sorted((k, str(v)) for k, v in o.items() if k != "id")) for o in obs})
    ctx.coverage.update({
        "evaluations": len(obs),
        "distinct_nontrivial": distinct,
        "rule": "pool: every disciplined Get/Put sequence of length 6 (8 thorough) on ranges [1,4), up to NOTAG, up to NOFID, up to 2^64-1, empty range; "
                "client: every reply permutation of batches of 1..4 (5 thorough) in-flight calls + a later call; each fault kind (unknown tag, wrong type, garbage header, "
                "close, short frame) after j of k replies for all j<=k<=3 + a later call; 16/33/64 goroutines in random reply order; a failing send at each "
                "position of a session followed by an unknown-tag frame and three more calls; forced schedules (events only): reply during a failing send, reply before send returns, "
                "wake-up of a parked waiter, late waiter with reply delivered and token free (8 rounds: both select cases ready); fid scripts with refusals, replies under an unknown tag "
                "and replies of the wrong type after the server bound the fid; distinct = distinct records",
        "correspondence": {"cases": len(obs), "mismatches": nm, "by_kind": kinds},
        "samples": [next(o for o in obs if o["kind"] == "trace"), next(o for o in obs if o["kind"] == "fids"),
                    next(o for o in obs if o["kind"] == "pool" and len(o["ops"]) > 3),
                    next(o for o in obs if o.get("sub") == "fault-unknown"),
                    next(o for o in obs if o.get("sub") == "sendfail")],
    })


def search(ctx):
    """Obligation or correspondence broken and no observed failure: look further within ctx.search_budget_s."""
    if ctx.thorough:
        return
    if getattr(ctx, "search_budget_s", 900) >= 600:
        ctx.tier = "thorough"
        ctx.thorough = True
    else:
        ctx.seed += 7919            # quick budget: one more quick pass with another seed
    run(ctx)
