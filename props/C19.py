"""C19 — directory listing: every entry exactly once, QIDs agree with Walk/GetAttr."""
import vlib
from vlib import coq_string, coq_bool

ID = "C19"
PROPERTIES_FILE = "Properties/C19.v"
COQ_TARGETS = ["Properties/C19.vo", "Fsx/C19Cases.vo"]
LEVEL = "proof"
TECHNIQUE = ("Coq theorems over hand-written Gallina models of readdir.Readdir, localfs Readdir (directory stream with a persistent "
             "position), rreaddir.encode truncation, the msize clamps, the paging loop and the qids.Mapper chains of staticfs/composefs; "
             "models tied to the code by differential cases on the real file systems evaluated with vm_compute, plus FsGen source-shape obligations")
LEVEL_TEXT = ("Theorems for all name lists, counts and msize values: the paged listing (next offset = Offset of the last entry) returns "
              "every entry exactly once in order whenever one entry fits, for the static/compose Readdir and the localfs loop, directly and "
              "through the server's truncation; every page makes progress; an entry's QID/Type equal what Walk and GetAttr report after any "
              "intervening lookups (any nesting of mounts), also after a mount's own identity changed since the composefs was built "
              "(C19_qids_mount_changed; a root answering from QIDs remembered at mount time is refuted: C19_mount_cache_refuted). Every run re-checks the proofs and compares the models with localfs on "
              "temporary directories, staticfs, composefs and nested mounts, via File directly and via real client+server; composefs "
              "mounts include files whose QID version/path the harness changes after New and in the middle of scripted "
              "Readdir/Walk/GetAttr sequences (op OBump), and the property evaluated on a script is: whatever a Readdir listed for a name "
              "equals what a Walk to it and GetAttr report, in either order, between two identity changes.")
LEVEL_NOTE = ("Trusted: Coq kernel + vm_compute; hand models Fsx/Readdir.v, LocalDir.v, Paging.v, QidMap.v (tied by the differential cases "
              "and by FsGen expression checks only); the order in which the host returns directory entries (and its stability while "
              "the directory is not modified) is an oracle input; decode(encode(entries)) = entries is C01's.")
DESIGN_REF = "6/C19"
ASSUMPTIONS = [
    "the host returns the entries of an unmodified directory in the same order after every rewind (oracle)",
    "names within one directory are distinct (NoDup); name lengths below 65536 on the wire",
    "a Go slice has fewer than 2^63 elements (so offset+count in readdir.Readdir cannot wrap)",
    "the Rreaddir payload decodes to the entries that were encoded (C01)",
]
TRUSTED_BASE = [
    "Coq 8.16.1 kernel, vm_compute (cases evaluation); no native_compute",
    "axioms: none (Print Assumptions: closed under the global context for every property theorem)",
    "go2coq ConstGen (maximumLength, QID type constants) and FsGen (source text of the Readdir offset/skip/rewind expressions)",
    "hand-written models Fsx/*.v, tied by harness/fsimpl/localfs/c19_local_test.go, harness/fsimpl/composefs/c19_compose_test.go + Fsx/C19Cases.v",
    "python case translator props/C19.py:to_case (JSON observation -> c19case term, names/QIDs tabled by position)",
    "harness twin vh19Mut (a mounted File whose GetAttr/Open QID is a mutable cell) stands for 'the mount's identity changed'",
]

SHARD_BYTES = 120_000


def nm(x):
    return coq_string(x) if isinstance(x, str) else coq_string(bytes(x))


def qid(q):
    return "(mkQid %d %d %d)" % (q[0], q[1], q[2])


def ent(e):
    return "(mkDirent %s %d %d %s)" % (qid(e["qid"]), e["off"], e["type"], nm(e["name"]))


def lst(items):
    """Coq list as nested cons (the [a; b; ...] notation costs over 1 ms per element to parse); long lists in chunks joined by ++"""
    items = list(items)
    if not items:
        return "nil"
    if len(items) > 120:
        chunks = [lst(items[i:i + 120]) for i in range(0, len(items), 120)]
        out = chunks[-1]
        for c in reversed(chunks[:-1]):
            out = "(%s ++ %s)" % (c, out)
        return out
    return "".join("(cons %s " % x for x in items) + "nil" + ")" * len(items)


def leaf(l):
    if l.get("mut"):
        return "(LMut %s)" % qid(l["q"])
    return "(LStatic %s)" % lst(nm(n) for n in (l.get("names") or [])) if l.get("static") else "LFile"


class Tables:
    """names lists and QID tables shared by the cases of one shard (literals are costly to parse)"""

    def __init__(self):
        self.defs = []
        self.names = {}
        self.qtabs = {}

    def names_ref(self, names):
        key = tuple(tuple(n) if not isinstance(n, str) else n for n in names)
        if key not in self.names:
            self.names[key] = "nm%d" % len(self.names)
            self.defs.append("Definition %s : list string := %s." % (self.names[key], lst(nm(n) for n in names)))
        return self.names[key]

    def qtab_ref(self, qs):
        key = tuple(qs)
        if key not in self.qtabs:
            self.qtabs[key] = "qt%d" % len(self.qtabs)
            self.defs.append("Definition %s : list qid := %s." % (self.qtabs[key], lst(qid(q) for q in qs)))
        return self.qtabs[key]


def hk(n):
    return n if isinstance(n, str) else tuple(n)


def to_case(o, tb):
    if o["kind"] == "pages":
        names = o["names"] or []
        nidx = {}
        for i, n in enumerate(names):
            nidx.setdefault(hk(n), i)
        extra = []
        qs = []
        qidx = {}

        def qi(q):
            q = tuple(q)
            if q not in qidx:
                qidx[q] = len(qs)
                qs.append(q)
            return qidx[q]
        wq = [qi(q) for q in (o["walkq"] or [])]
        gq = [qi(q) for q in (o["getq"] or [])]
        pages = []
        for pg in (o["pages"] or []):
            row = []
            for e in pg:
                k = hk(e["name"])
                if k not in nidx:
                    nidx[k] = len(names) + len(extra)
                    extra.append(e["name"])
                row.append("(%d, %d, %d, %d)" % (nidx[k], e["off"], qi(e["qid"]), e["type"]))
            pages.append(lst(row))
        return "CPagesZ %d %s %d %d %s %s %s %s %s %s %s" % (
            o["fs"], coq_bool(o["remote"]), o["msize"], o["count"], tb.names_ref(names), lst(nm(n) for n in extra),
            tb.qtab_ref(qs), lst(str(x) for x in wq), lst(str(x) for x in gq), lst(pages), coq_bool(o["hit"] or bool(o.get("err"))))
    if o["kind"] == "qids":
        shape = lst("(%s, %s)" % (nm(m["name"]),
                                  "MSub %s" % lst("(%s, %s)" % (nm(s["name"]), leaf(s["leaf"])) for s in (m.get("sub") or []))
                                  if m["issub"] else "MLeaf %s" % leaf(m["leaf"])) for m in o["shape"])
        ops = lst(("(OBump %s %s)" % (nm(p_["name"]), qid(p_["q"]))) if p_.get("bump") else
                  ("(ORead %s %d %d)" % (lst(nm(p) for p in (p_["path"] or [])), p_["off"], p_["cnt"])) if p_["read"]
                  else ("(OWalk %s %s)" % (lst(nm(p) for p in (p_["path"] or [])), nm(p_["name"]))) for p_ in o["ops"])
        res = lst("RNoDir" if r["kind"] == "nodir" else "RBump" if r["kind"] == "bump" else
                  ("(RRead %s)" % lst(ent(e) for e in (r.get("ents") or []))) if r["kind"] == "read" else
                  ("(RWalk %s %s %s)" % (coq_bool(r["ok"]), qid(r["qw"]), qid(r["qg"]))) for r in o["res"])
        return "CQids %s %s %s" % (shape, ops, res)
    raise ValueError(o["kind"])


HEADER = ("From P9V Require Import Base.Str Fsx.Readdir Fsx.QidMap Fsx.C19Cases.\nOpen Scope string_scope.\nOpen Scope N_scope.\n"
          "Open Scope list_scope.\n")


def shards(obs):
    """[(first index, text of the definitions + cases list)]"""
    out = []
    tb, cur, size, first = Tables(), [], 0, 0

    def flush():
        out.append((first, "\n".join(tb.defs) + "\nDefinition cases : list c19case := [\n  %s\n].\n" % ";\n  ".join(cur)))
    for i, o in enumerate(obs):
        nd = len(tb.defs)
        c = "(%s)" % to_case(o, tb)
        add = len(c) + sum(len(d) for d in tb.defs[nd:])
        if cur and size + add > SHARD_BYTES:
            del tb.defs[nd:]
            flush()
            tb, cur, size, first = Tables(), [], 0, i
            c = "(%s)" % to_case(o, tb)
            add = len(c) + sum(len(d) for d in tb.defs)
        cur.append(c)
        size += add
    if cur:
        flush()
    return out


def samples(obs):
    """actual observations (small ones, verbatim): one truncated listing through client+server per file system, one direct, one script"""
    out = []
    pages = [o for o in obs if o["kind"] == "pages"]
    for fs in (0, 1, 2, 3):
        c = [o for o in pages if o["fs"] == fs and o["remote"] and 2 <= len(o["names"] or []) <= 5 and len(o["pages"] or []) >= 2]
        if c:
            out.append(c[0])
    c = [o for o in pages if not o["remote"] and 2 <= len(o["names"] or []) <= 5 and len(o["pages"] or []) >= 2]
    out += c[:1]
    c = [o for o in obs if o["kind"] == "qids" and len(o["ops"]) <= 12]
    out += c[:1]
    return out


def summarize(o):
    if o["kind"] == "pages":
        return {"kind": "pages", "fs": ["localfs", "staticfs", "composefs", "nested"][o["fs"]], "remote": o["remote"], "msize": o["msize"],
                "count": o["count"], "entries": len(o["names"] or []), "pages": len(o["pages"] or []),
                "listed": sum(len(p) for p in (o["pages"] or [])), "hit_page_limit": o["hit"], "err": o.get("err")}
    return {"kind": "qids", "mounts": len(o["shape"]), "ops": len(o["ops"])}


def eval_shards(ctx, base, texts, prints, timeout=1500, workers=12):
    """coq_eval_shards, with one retry of shards that did not compile: the coq/ tree is shared, and another check
    rebuilding a library while a shard loads it gives a transient 'inconsistent assumptions' error."""
    res = ctx.coq_eval_shards(base, texts, prints, timeout=timeout, workers=workers)
    bad = [i for i, r in enumerate(res) if r is None]
    if bad:
        with vlib.Lock():
            vlib.make_targets(COQ_TARGETS)
        ctx.broken[:] = [b for b in ctx.broken
                         if not (b.get("kind") == "correspondence" and str(b.get("what", "")).startswith("cases/%s_" % base))]
        ctx.note("%d cases shard(s) did not compile; libraries rebuilt, retrying once" % len(bad))
        retry = ctx.coq_eval_shards(base + "_retry", [texts[i] for i in bad], prints, timeout=timeout, workers=workers)
        for i, r in zip(bad, retry):
            res[i] = r
    return res


def rebuild_if_make_flaked(ctx):
    """The coq/ tree and its _CoqProject are shared with checks that add files while this one runs; a make failure
    without any Coq error message (no file/line) is such an infrastructure hiccup: build once more.  A proof that
    really fails reports its file and line and is never retried."""
    flaky = [b for b in ctx.broken if b.get("kind") == "obligation" and b.get("file") == "?"]
    if not flaky:
        return
    ctx.note("make failed without a Coq error (%s); building once more" % str(flaky[0].get("error", ""))[-160:].replace("\n", " "))
    ctx.broken[:] = [b for b in ctx.broken if b not in flaky]
    ctx.build(COQ_TARGETS, PROPERTIES_FILE)


def apply_replay(ctx):
    """--replay FILE: the generators are deterministic in (seed, tier), so re-running the harness with the recorded
    seed and tier reproduces the recorded observation (the replay file also holds it verbatim)."""
    if not ctx.replay:
        return
    import json
    try:
        r = json.load(open(ctx.replay))
    except (OSError, ValueError) as ex:
        ctx.note("cannot read replay file: %r" % ex)
        return
    ctx.seed = int(r.get("seed", ctx.seed))
    if r.get("tier") == "thorough":
        ctx.tier, ctx.thorough = "thorough", True
    ctx.note("replaying seed=%d tier=%s (%s)" % (ctx.seed, ctx.tier, r.get("key")))


def run(ctx):
    import time as _time
    _t0 = _time.time()
    try:
        run1(ctx)
    finally:
        ctx._run_s = _time.time() - _t0


def run1(ctx):
    apply_replay(ctx)
    rebuild_if_make_flaked(ctx)
    obs = []
    tests = (("fsimpl/localfs", "^TestVerifC19Local$", ["vh_fs_common_test.go", "c19_local_test.go"]),
             ("fsimpl/composefs", "^TestVerifC19Compose$", ["vh_fs_common_test.go", "c19_compose_test.go"]))
    from concurrent.futures import ThreadPoolExecutor
    with ThreadPoolExecutor(max_workers=2) as ex:
        futs = [ex.submit(ctx.gotest, pkg, test, files, None, 1500) for pkg, test, files in tests]
        results = [f.result() for f in futs]
    for (pkg, test, files), (rc, out, o) in zip(tests, results):
        if rc != 0 or not o:
            ctx.harness_broken("harness %s %s failed (rc=%d)" % (pkg, test, rc), out)
            continue
        obs += o
    if not obs:
        return
    sh = shards(obs)
    texts = [HEADER + body +
             "Definition M := Eval vm_compute in mismatches cases.\nPrint M.\n"
             "Definition P := Eval vm_compute in property_failures cases.\nPrint P.\n" for _, body in sh]
    res = eval_shards(ctx, "C19_cases", texts, ["M", "P"])
    nm_ = 0
    for (first, _), r in zip(sh, res):
        if r is None:
            continue
        for idx in vlib.coq_nat_list(r["P"]):
            o = obs[first + idx]
            s = summarize(o)
            key = "C19:%s:%s" % (s.get("fs", "qids"), "remote" if s.get("remote") else "direct")
            ctx.violation(key, "observed listing violates C19: %s" % s, {"summary": s, "observation": o,
                          "how": "re-run the harness test with VERIF_SEED=%d; the observation holds the directory order, msize, count and every page" % ctx.seed})
        for idx in vlib.coq_nat_list(r["M"]):
            o = obs[first + idx]
            nm_ += 1
            if nm_ <= 5:
                ctx.note("model/implementation disagree on: %s" % summarize(o))
            ctx.broken.append({"kind": "correspondence", "what": "Fsx model disagrees with the implementation (%s)" % summarize(o),
                               "case": summarize(o)})
    pages = [o for o in obs if o["kind"] == "pages"]
    dist = {}
    for o in pages:
        k = "%s/%s" % (["localfs", "staticfs", "composefs", "nested"][o["fs"]], "remote" if o["remote"] else "direct")
        dist[k] = dist.get(k, 0) + 1
    FSN = ["localfs", "staticfs", "composefs", "nested"]
    table = {}
    for o in pages:
        k = "%s/%s" % (FSN[o["fs"]], "client+server" if o["remote"] else "File direct")
        e = table.setdefault(k, {"listings": 0, "msize_values": set(), "count_min": None, "count_max": None, "max_entries": 0, "pages": 0,
                                 "truncated_listings": 0, "count_beyond_msize": 0, "names_walked_and_stat": 0})
        e["listings"] += 1
        if o["remote"]:
            e["msize_values"].add(o["msize"])
            e["count_beyond_msize"] += 1 if o["count"] > o["msize"] else 0
        e["count_min"] = o["count"] if e["count_min"] is None else min(e["count_min"], o["count"])
        e["count_max"] = o["count"] if e["count_max"] is None else max(e["count_max"], o["count"])
        e["max_entries"] = max(e["max_entries"], len(o["names"] or []))
        e["pages"] += len(o["pages"] or [])
        e["truncated_listings"] += 1 if len(o["pages"] or []) > 1 else 0
        e["names_walked_and_stat"] += len(o["walkq"] or [])
    for e in table.values():
        e["msize_values"] = sorted(e["msize_values"])
    distinct = len({(o["fs"], o["remote"], o["msize"], o["count"], len(o["names"] or [])) for o in pages}) + \
        len({str(o["shape"]) + str(o["ops"]) for o in obs if o["kind"] == "qids"})
    ctx.coverage.update({
        "evaluations": len(obs),
        "distinct_nontrivial": distinct,
        "rule": "directories of 0..%d entries (names 1..255 bytes, some non-ASCII) x entry/byte counts from 0/1 entry to 2^32-1 x msize values; "
                "localfs temp dirs, staticfs, composefs roots, staticfs and localfs below two mount levels; File directly and client+server; "
                "plus generated mount shapes with scripted Readdir/Walk/GetAttr sequences replayed in the Mapper model; "
                "distinct = distinct (fs, via, msize, count, size) tuples + distinct scripts" % max([len(o["names"] or []) for o in pages] + [0]),
        "correspondence": {"cases": len(obs), "mismatches": nm_, "by_kind": dist, "qid_scripts": len(obs) - len(pages),
                           "max_entries": max([len(o["names"] or []) for o in pages] + [0]),
                           "max_pages": max([len(o["pages"] or []) for o in pages] + [0]),
                           "by_fs_and_path": table,
                           "note": "client+server rows: real p9.NewClient(WithMessageSize(msize)) + real p9.Server over net.Pipe; Readdir pages, "
                                   "Walk([name]) and GetAttr all go through the wire; pages compared with Paging.v (remote_readdir: client clamp, "
                                   "server clamp, whole-entry truncation), QIDs/types of every listed entry compared with the Walk and GetAttr replies"},
        "samples": samples(obs),
    })


def search(ctx):
    """An obligation or the correspondence broke and nothing failing was observed: generate more inputs (further seeds,
    same tier) while ctx.search_budget_s allows; the duration of the run just made is the estimate for one more."""
    import time
    budget = getattr(ctx, "search_budget_s", 150)
    t0 = time.time()
    one = max(15.0, getattr(ctx, "_run_s", 60.0))
    seed0, k = ctx.seed, 0
    while not ctx.violations and k < 4 and time.time() - t0 + one <= budget:
        k += 1
        ctx.seed = seed0 + 1000 * k
        ctx.note("search: further inputs, seed %d" % ctx.seed)
        run(ctx)
    ctx.seed = seed0
