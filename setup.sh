#!/bin/bash
# Run once in /verif after a fresh restore, offline: builds the translator, generates coq/gen,
# builds every .vo (full build, no -vos) and warms the Go build cache for the harness packages.
set -u
cd "$(dirname "$0")"
export GOFLAGS=-mod=mod GOPROXY=off GOSUMDB=off GOTOOLCHAIN=local
mkdir -p run/bin evidence coq/cases
( cd tools/go2coq && go build -o ../../run/bin/go2coq . ) || exit 1
run/bin/go2coq -repo /repo -out coq/gen || echo "go2coq refused (reported again by the checks)"
python3 - <<'PY'
import sys; sys.path.insert(0, "lib")
import vlib
vlib.refresh_coqproject()
PY
( cd coq && timeout 3000 make -j16 -k ) 2>&1 | tail -5
( cd /repo && go build ./... && go test -vet=off -count=1 -run '^$' ./p9 ./vecnet ./linux ./fsimpl/... ) >/dev/null 2>&1
echo "setup done"
